"""Equivalence programs for C15: one base pipeline, then both sides of a documented equivalence as two
branches with one export each.  `program["pairs"]` lists (export A, export B, kind, ordered)."""
from __future__ import annotations

import copy

from . import gen as G

KINDS = ["mutate_split", "filter_split", "window_group", "window_docs", "drop_select", "rename_inverse", "slice_chain", "join_cross",
         "map_when", "is_in_or", "union_swap"]

BASE_W = dict(mutate=5, filter=3, select=2, drop=1, rename=2, arrange=2, alias=1)


def _strip(e, key):
    e = copy.deepcopy(e)

    def rec(x):
        if isinstance(x, dict):
            x.pop(key, None)
            for v in x.values():
                rec(v)
        elif isinstance(x, list):
            for v in x:
                rec(v)
    rec(e)
    return e


def _no_cname(e):
    found = []
    from .triggers import _walk

    _walk(e, lambda d: found.append(1) if "c" in d else None)
    return not found


def gen_equiv(seed: int, profile: str):
    kind = profile[len("equiv_"):]
    g, cur = G._orig_gen_program(seed, "rowlevel", n_verbs=G.random.Random(seed).randint(0, 3), exports=None, _ret_gen=True, _weights=BASE_W)
    g.profile = profile
    r = g.rng
    if cur.group:
        cur = g.v_ungroup(cur) or cur
    pairs = []
    backend_dependent = False
    nid = [0]

    def T():
        nid[0] += 1
        return f"e{nid[0]}"

    def S(**kw):
        g.stmts.append(kw)
        return kw["id"]

    def X(src, ordered=False):
        g.next_e += 1
        xid = f"x{g.next_e}"
        g.stmts.append(dict(id=xid, op="export", src=src, target="polars", ordered=ordered))
        return xid

    def pair(a, b, ordered=False, k=None):
        pairs.append([X(a, ordered), X(b, ordered), k or kind, ordered])

    def fresh_names(n):
        out, names = [], set(cur.names())
        for i in range(n):
            nm = r.choice(["m", "p", "q", "w", "z"]) + str(r.randint(1, 99))
            while nm in names or nm in out:
                nm += "_"
            out.append(nm)
        return out

    t = cur.tid

    def hard_key():
        """a descending key with an explicit nulls marker on a nullable column (the marker combination the
        Polars backend has to emulate inside over())"""
        cands = [cid for cid in cur.vis_cids() if cur.scope[cid].nullable and cur.scope[cid].cls in ("int", "string", "bool")
                 and cur.scope[cid].kind == "ewise" and not cur.scope[cid].const]
        if not cands or r.random() < 0.3:
            return None
        cid = r.choice(cands)
        e = {"col": [t, [n for n, c in cur.visible if c == cid][0]]}
        nm = r.choice(["nulls_first", "nulls_last"])
        if r.random() < 0.75:
            return g.fn(nm, g.fn("descending", e)) if r.random() < 0.5 else g.fn("descending", g.fn(nm, e))
        return g.fn(nm, e)

    def harden(e):
        hk = hard_key()
        if hk is None:
            return e
        e = copy.deepcopy(e)

        def rec(x):
            if isinstance(x, dict):
                if x.get("arrange"):
                    x["arrange"] = [hk] + x["arrange"]
                    return True
                return any(rec(v) for v in x.values())
            if isinstance(x, list):
                return any(rec(v) for v in x)
            return False
        rec(e)
        return e

    if kind == "mutate_split":
        k = r.randint(2, 3)
        names = fresh_names(k)
        exprs = []
        for _ in range(k):
            cls = r.choice(["int", "int", "float", "bool", "string"])
            exprs.append(g.ewise(cur, cls, r.randint(1, 3)))
        a = S(id=T(), op="mutate", src=t, cols=[[n, e] for n, e in zip(names, exprs)])
        prev = t
        for n, e in zip(names, exprs):
            prev = S(id=T(), op="mutate", src=prev, cols=[[n, e]])
        pair(a, prev)
    elif kind == "filter_split":
        preds = [g.ewise(cur, "bool", r.randint(1, 3)) for _ in range(r.randint(2, 3))]
        keys0 = g.order_keys(cur, total=True) if r.random() < 0.3 else None
        if keys0 is not None:
            # behind `slice_head >> alias()`: the first filter makes the alias a subquery; the second one must find the table as the
            # subquery left it (one call with both predicates and one call per predicate are the same pipeline)
            ar0 = S(id=T(), op="arrange", src=t, by=keys0)
            sl0 = S(id=T(), op="slice_head", src=ar0, n=r.choice([2, 3, 4]), offset=0)
            t = S(id=T(), op="alias", src=sl0, keep_col_refs=True)
            g.features.add("filter_split_behind_subquery")
        a = S(id=T(), op="filter", src=t, preds=preds)
        prev = t
        chain = list(preds)
        if r.random() < 0.5:
            # the order of the single-predicate calls does not matter (C15Extra.filter_commute) ...
            r.shuffle(chain)
            g.features.add("filter_split_shuffled")
        if r.random() < 0.25:
            # ... and neither does repeating one of them (C15Extra.filter_idempotent)
            chain.insert(r.randint(0, len(chain)), r.choice(preds))
            g.features.add("filter_split_repeated")
        for p in chain:
            prev = S(id=T(), op="filter", src=prev, preds=[p])
        pair(a, prev)
    elif kind in ("window_group", "window_docs"):
        pcs = []
        for cls in r.sample(["int", "string", "bool"], 3):
            pcs += g.cols_of(cur, cls, hidden_ok=False)
        if not pcs or not cur.keys:
            return _fallback(g, cur, profile)
        part_c = r.sample(pcs, min(len(pcs), r.randint(1, 2)))
        part = [{"col": [t, [n for n, c in cur.visible if c == pc][0]]} for pc in part_c]
        nm = fresh_names(1)[0]
        if kind == "window_group":
            cls = r.choice(["int", "int", "float", "string", "bool"])
            e = g.window(cur, cls, part_explicit=part) if r.random() < 0.6 else None
            if e is None:
                e = g.over_agg(cur, cls if cls != "string" else "int", 2, window=True, part_explicit=part)
            e = harden(e)
            pnames = [[n for n, c in cur.visible if c == pc][0] for pc in part_c]
            hide = r.random() < 0.5 and len(cur.visible) > len(pnames) + 1 and _no_cname(e)
            a = S(id=T(), op="mutate", src=t, cols=[[nm, e]])
            gb = S(id=T(), op="group_by", src=t, cols=part)
            if hide:
                # the grouping column goes out of sight between group_by and the window function: it still partitions
                how = r.choice(["drop", "select"])
                if how == "drop":
                    gb = S(id=T(), op="drop", src=gb, cols=list(pnames))
                else:
                    gb = S(id=T(), op="select", src=gb, cols=[n for n, _ in cur.visible if n not in pnames])
                a = S(id=T(), op="drop", src=a, cols=list(pnames))
                g.features.add("window_group_hidden_key")
            m = S(id=T(), op="mutate", src=gb, cols=[[nm, _strip(e, "partition_by")]])
            b = S(id=T(), op="ungroup", src=m)
            pair(a, b)
        else:
            # the documented notation: group_by(g) >> arrange(o) >> mutate(f(x)) >> ungroup()
            keys = g.order_keys(cur, total=True)
            xs = g.cols_of(cur, "int", hidden_ok=False) or g.cols_of(cur, "string", hidden_ok=False)
            if keys is None or not xs:
                return _fallback(g, cur, profile)
            hk = hard_key() if r.random() < 0.6 else None
            if hk is not None:
                keys = [hk] + keys
            elif r.random() < 0.8:
                # an *unmarked* key over a nullable column, ascending or descending: where the nulls go is the backend's choice,
                # but the `arrange` verb and the `arrange=` argument of one backend must make the same choice
                cands = [cid for cid in cur.vis_cids() if cur.scope[cid].nullable and cur.scope[cid].cls in ("int", "string", "bool")
                         and cur.scope[cid].kind == "ewise" and not cur.scope[cid].const]
                if cands:
                    cid = r.choice(cands)
                    e0 = {"col": [t, [n for n, c in cur.visible if c == cid][0]]}
                    keys = [g.fn("descending", e0) if r.random() < 0.6 else e0] + keys
                    backend_dependent = True
                    g.features.add("unmarked_nullable_key")
            xc = r.choice(xs)
            x = {"col": [t, [n for n, c in cur.visible if c == xc][0]]}
            if r.random() < 0.7:
                e = g.fn("shift", x, {"lit": r.choice([1, -1, 2])}, {"lit": None}, partition_by=part, arrange=keys)
            else:
                e = g.fn("row_number", partition_by=part, arrange=keys)
            if r.random() < 0.3:
                # the empty grouping: arrange(o) >> mutate(f(x)) against mutate(f(x, arrange=o)) - the un-partitioned window path
                e = _strip(e, "partition_by")
                a = S(id=T(), op="mutate", src=t, cols=[[nm, e]])
                ar = S(id=T(), op="arrange", src=t, by=keys)
                b = S(id=T(), op="mutate", src=ar, cols=[[nm, _strip(e, "arrange")]])
                g.features.add("window_docs_empty_group")
                pair(a, b)
            else:
                a = S(id=T(), op="mutate", src=t, cols=[[nm, e]])
                gb = S(id=T(), op="group_by", src=t, cols=part)
                ar = S(id=T(), op="arrange", src=gb, by=keys)
                m = S(id=T(), op="mutate", src=ar, cols=[[nm, _strip(_strip(e, "partition_by"), "arrange")]])
                b = S(id=T(), op="ungroup", src=m)
                pair(a, b)
    elif kind == "drop_select":
        vis = list(cur.visible)
        if len(vis) < 2:
            return _fallback(g, cur, profile)
        dropped = r.sample(vis, r.randint(1, len(vis) - 1))
        a = S(id=T(), op="drop", src=t, cols=[({"col": [t, n]} if r.random() < 0.5 else n) for n, _ in dropped])
        b = S(id=T(), op="select", src=t, cols=[({"col": [t, n]} if r.random() < 0.5 else n) for n, c in vis if (n, c) not in dropped])
        pair(a, b)
    elif kind == "rename_inverse":
        vis = list(cur.visible)
        chosen = r.sample(vis, r.randint(1, min(3, len(vis))))
        new = fresh_names(len(chosen))
        m1 = [[n, nn] for (n, _), nn in zip(chosen, new)]
        a = S(id=T(), op="rename", src=t, map=m1)
        b = S(id=T(), op="rename", src=a, map=[[nn, n] for n, nn in m1])
        pair(t, b)
    elif kind == "slice_chain":
        keys = g.order_keys(cur, total=True)
        if keys is None:
            return _fallback(g, cur, profile)
        ar = S(id=T(), op="arrange", src=t, by=keys)
        n1, o1, n2 = r.choice([0, 1, 2, 3, 5, 8]), r.choice([0, 0, 1, 2, 4]), r.choice([0, 1, 2, 3, 5])
        o2 = r.choice([0, 0, 1, 2, 3, n1 + 1, n1 + 2])
        s1 = S(id=T(), op="slice_head", src=ar, n=n1, offset=o1)
        prev = S(id=T(), op="slice_head", src=s1, n=n2, offset=o2)
        n, o = min(n2, max(n1 - o2, 0)), o1 + o2
        if r.random() < 0.4:
            n3, o3 = r.choice([1, 2, 3]), r.choice([0, 1])
            prev = S(id=T(), op="slice_head", src=prev, n=n3, offset=o3)
            n, o = min(n3, max(n - o3, 0)), o + o3
        b = S(id=T(), op="slice_head", src=ar, n=n, offset=o)
        pair(prev, b, ordered=True)
    elif kind == "join_cross":
        right = g.add_source(f"src{len(g.tables)}")
        if r.random() < 0.5:
            right = r.choice([g.v_filter, lambda tv: g.v_mutate(tv, "ewise"), g.v_rename])(right) or right
        jt = g.v_join(cur, right, how="inner")
        if jt is None:
            return _fallback(g, cur, profile)
        st = g.stmts[-1]
        st["suffix"] = "_rq"
        if any(n + "_rq" in cur.names() for n in right.names()):
            return _fallback(g, cur, profile)
        if r.random() < 0.5:
            cj = S(id=T(), op="cross_join", src=t, right=right.tid, suffix="_rq")       # the verb itself
        else:
            cj = S(id=T(), op="join", src=t, right=right.tid, on=[], how="inner", suffix="_rq")
        b = S(id=T(), op="filter", src=cj, preds=list(st["on"]))
        pair(st["id"], b)
    elif kind == "map_when":
        cls = r.choice(["int", "string"])
        xs = g.cols_of(cur, cls, hidden_ok=False)
        if not xs:
            return _fallback(g, cur, profile)
        xc = r.choice(xs)
        xn = [n for n, c in cur.visible if c == xc][0]
        x = {"col": [t, xn]}
        pool = [0, 1, -1, 2, 3, -3, 7, 12, 40] if cls == "int" else ["", "a", "b", "ab", "x y", "c", "cx"]
        keys = r.sample(pool, r.randint(2, 4))
        with_default = r.random() < 0.6
        vcls = r.choice(["int", "string", "bool", "float"]) if with_default else cls
        groups, i = [], 0
        while i < len(keys):
            k = 2 if (r.random() < 0.3 and i + 1 < len(keys)) else 1
            groups.append(keys[i:i + k])
            i += k
        vals = [g.lit(vcls) if r.random() < 0.7 else (g.leaf(cur, vcls, ("ewise",))) for _ in groups]
        dflt = (g.lit(vcls) if r.random() < 0.7 else {"lit": None, "dtype": None}) if with_default else None
        if dflt is not None and dflt.get("lit") is None:
            dflt = {"lit": None}
        nm = fresh_names(1)[0]
        a = S(id=T(), op="mutate", src=t, cols=[[nm, {"mapx": x, "pairs": [[[{"lit": k} for k in ks], v] for ks, v in zip(groups, vals)], "default": dflt}]])
        conds = [g.fn("equal", x, {"lit": ks[0]}) if len(ks) == 1 else g.fn("bool_or", g.fn("equal", x, {"lit": ks[0]}), g.fn("equal", x, {"lit": ks[1]}))
                 for ks in groups]
        b = S(id=T(), op="mutate", src=t, cols=[[nm, {"case": [[c, v] for c, v in zip(conds, vals)], "default": dflt if dflt is not None else x}]])
        pair(a, b)
    elif kind == "is_in_or":
        cls = r.choice(["int", "string", "int"])
        xs = g.cols_of(cur, cls, hidden_ok=False)
        if not xs:
            return _fallback(g, cur, profile)
        xc = r.choice(xs)
        x = {"col": [t, [n for n, c in cur.visible if c == xc][0]]}
        pool = [0, 1, -1, 2, 3, -3, 7, 12, 40] if cls == "int" else ["", "a", "b", "ab", "x y", "c", "cx"]
        ks = [{"lit": k} for k in r.sample(pool, r.randint(2, 3))]
        if r.random() < 0.25:
            other = g.cols_of(cur, cls, hidden_ok=False)
            oc = r.choice(other)
            ks[-1] = {"col": [t, [n for n, c in cur.visible if c == oc][0]]}
        if r.random() < 0.3:
            # a null among the values: `x == None` is null, so a row without a match gives null, not false
            ks.insert(r.randint(1, len(ks)), {"lit": None})
        isin = g.fn("is_in", x, *ks)
        chain = g.fn("equal", x, ks[0])
        for k in ks[1:]:
            chain = g.fn("bool_or", chain, g.fn("equal", x, k))
        nm = fresh_names(1)[0]
        if r.random() < 0.5:
            pair(S(id=T(), op="mutate", src=t, cols=[[nm, isin]]), S(id=T(), op="mutate", src=t, cols=[[nm, chain]]))
        else:
            pair(S(id=T(), op="filter", src=t, preds=[isin]), S(id=T(), op="filter", src=t, preds=[chain]))
    elif kind == "union_swap":
        if cur.joined:
            return _fallback(g, cur, profile)
        al = g.v_alias(cur)
        u = g.v_filter(al) or al
        names = cur.names()
        if u.names() != names:
            return _fallback(g, cur, profile)
        utid = u.tid
        if len(names) > 1 and r.random() < 0.6:
            # the operands list the same names in different orders (matching is by name)
            perm = list(names)
            r.shuffle(perm)
            utid = S(id=T(), op="select", src=u.tid, cols=perm)
        d = r.random() < 0.5
        a = S(id=T(), op="union", src=t, right=utid, distinct=d)
        b0 = S(id=T(), op="union", src=utid, right=t, distinct=d)
        sel = list(names)
        b = S(id=T(), op="select", src=b0, cols=sel)
        pair(a, b)
    else:
        raise ValueError(kind)
    p = g.program()
    p["pairs"] = pairs
    if backend_dependent:
        p["backend_dependent"] = True
    meta = dict(features=sorted(g.features | {kind}), ops=sorted(g.ops_used), verbs=[s["op"] for s in g.stmts], final=pairs[0][0] if pairs else cur.tid)
    return p, meta


def _fallback(g, cur, profile):
    """the equivalence does not apply to this base table: a plain export (still compared across backends)"""
    g.export(cur)
    p = g.program()
    p["pairs"] = []
    return p, dict(features=sorted(g.features | {"equiv_not_applicable"}), ops=sorted(g.ops_used), verbs=[s["op"] for s in g.stmts], final=cur.tid)
