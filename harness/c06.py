"""C06 — join: exact row combinations, collision-free names, all columns reachable.

Deciding method: Lean theorems about the join of the reference semantics and about the join verb's
scope and naming in the front-end model (Pdt/Props/C06.lean), tied to the code by the front-end
correspondence (names, scope, suffix rule) and by comparing the exported frames with the Spec."""
from . import speccheck

PROP = "C06"


def run(tier, seed):
    return speccheck.run(PROP, tier, seed, ["join", "scen_cross_empty", "join", "scen_join_hidden", "scen_selfjoin_agg", "scen_join_suffix", "scen_join_all", "join", "general"], 300, 10000, also=("C01", "C09"),
                         assumptions=["join predicates are generated over int / string / bool keys with duplicate and null keys; inequality predicates and expressions are included"])
