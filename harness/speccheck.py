"""Checks whose oracle is the independent reference semantics (Lean `Spec.run`, executed by the
driver): the exported frame of every generated program on Polars and on SQLite must equal what a
row-by-row evaluation of the documented verb / operator meanings gives."""

from __future__ import annotations

import random

from . import campaign, common, front, frontchecks, oracle  # noqa: F401
from .c08 import coverage, proof_status, report_new
from .common import Verdict


def has_marker_risk(program: dict) -> bool:
    ops = [s["op"] for s in program["stmts"]]
    return ("join" in ops or "union" in ops) and "alias" in ops


def run(prop, tier, seed, profiles, n_quick, n_thorough, also=(), assumptions=(), select=None, extra_oracle=None, gen_kw=None,
        level_rule=None, extra_stream=None):
    v = Verdict(prop, tier, seed)
    po = common.proof_obligations(prop)
    findings = common.findings_for(prop, also=also)
    n = n_quick if tier == "quick" else n_thorough
    sp = [(seed * 1_000_003 + i, profiles[i % len(profiles)]) for i in range(n)]
    results = campaign.run_programs(sp, extra_oracle or "diff_c01", gen_kw=gen_kw)
    results = [r for r in results if "crash" in r or select is None or select(r["program"])]
    st = campaign.stats_of(results)
    corr = []
    n_spec = n_sqlmodel = n_shape = 0
    if po["build"]["ok"]:
        items = []
        for r in results:
            if "crash" in r:
                continue
            for be in ("polars", "sqlite"):
                items.append((r, be))
        mo = front.model_run([(r["program"], be, r[be]) for r, be in items], with_data=True)
        for (r, be), m in zip(items, mo):
            p = r["program"]
            if m is None:
                corr.append(dict(kind="driver_error", seed=p.get("seed")))
                continue
            for d in front.compare_front(p, be, r[be], m):
                corr.append(dict(d, seed=p.get("seed"), profile=p.get("profile"), backend=be))
            if not front.spec_supported(p):
                continue
            spec = front.spec_frames(m, "spec")
            sqlm = front.spec_frames(m, "sql")
            for stt, o in zip(p["stmts"], r[be]):
                if stt["op"] != "export" or o["outcome"] != "ok":
                    continue
                ordered = bool(stt.get("ordered"))
                if stt["id"] in spec:
                    n_spec += 1
                    d = oracle.compare_frames(o["frame"], spec[stt["id"]], ordered)
                    if d:
                        # the property's oracle: the real backend deviates from the documented meaning
                        r["diffs"].append(dict(kind="spec_differs", stmt=stt["id"], op="export", backend=be, detail=d,
                                               dclass="names" if d.startswith("names") else "rowcount" if d.startswith("row counts") else "cell"))
                if be == "sqlite" and o.get("query") and not has_marker_risk(p):
                    mo_x = next((x for x in m if x.get("id") == stt["id"]), None)
                    sd = front.shape_diff((mo_x or {}).get("shape"), o["query"])
                    n_shape += 1
                    if sd:
                        corr.append(dict(kind="sql_model_query_shape", stmt=stt["id"], seed=p.get("seed"), profile=p.get("profile"), detail=sd))
                if be == "sqlite" and stt["id"] in sqlm and not has_marker_risk(p) and "D64" not in r["trig"]:
                    # (under D64 the rows a LIMIT keeps after a lost ORDER BY are the engine's choice: nothing to compare)
                    mf = sqlm[stt["id"]]
                    if isinstance(mf, str):
                        corr.append(dict(kind="sql_model_refuses", stmt=stt["id"], seed=p.get("seed"), profile=p.get("profile"), model=mf))
                    else:
                        n_sqlmodel += 1
                        # the sequence is only defined by the ORDER BY of the outermost SELECT (an inner one is lost: D64)
                        mo_y = next((x for x in m if x.get("id") == stt["id"]), None) or {}
                        outer_sorted = bool((mo_y.get("shape") or {}).get("order_by"))
                        d = oracle.compare_frames(o["frame"], mf, ordered and outer_sorted)
                        if d:
                            corr.append(dict(kind="sql_model_vs_sqlite", stmt=stt["id"], seed=p.get("seed"), profile=p.get("profile"), detail=d))
    accepted_against_model = {c.get("seed") for c in corr if c.get("kind") == "outcome" and c.get("real") == "ok" and c.get("model") not in (None, "ok")}
    known_hits, new = {}, []
    for r in results:
        if "crash" in r:
            new.append((None, dict(kind="harness_crash", stmt="", detail=r["crash"][-800:])))
            continue
        k, nw = campaign.classify(r["program"], r["diffs"], r["trig"], findings, prop)
        if r["program"].get("seed") in accepted_against_model:
            # the real front end accepted a verb that the model of the unchanged decision logic refuses: the known findings describe the
            # unchanged code and cannot explain what such a pipeline returns - its deviations are reported as they are
            nw = nw + [d for ds in k.values() for d in ds if d.get("kind") in ("frames_differ", "spec_differs", "sqlite_only_error", "polars_only_error")]
            k = {}
        for fid, ds in k.items():
            known_hits.setdefault(fid, []).extend(ds)
        new += [(r, d) for d in nw]
    report_new_spec(v, new)
    for f in findings:
        if f["id"] in known_hits:
            v.known_finding(f"{f['id']}: {f['summary']} ({len(known_hits[f['id']])} instances)")
    extra_cov = {}
    if extra_stream is not None:
        # a directed stream of the property (e.g. the typed operator grid of C12): reports its own violations / known findings
        n_extra, extra_cov = extra_stream(v, findings)
        new = new + [(None, dict(kind="extra_stream"))] * n_extra
    broken = proof_status(po, corr)
    if broken and not new:
        # directed search: the programs on which the model and the code disagree, over fresh table contents
        found = directed_search(results, corr, findings, prop, seed)
        if found:
            new = found
            report_new_spec(v, new)
    if broken and not new:
        v.violation("unproved", dict(what=f"a proof obligation or the model/code correspondence of {prop} no longer checks and the search over "
                                          "the real code found no failing input", broken=broken, theorems=po.get("theorems")), no_input=True)
    v.coverage = coverage(po, results, st, corr, known_hits,
                          extra=dict(frames_compared_with_spec=n_spec, sqlite_frames_compared_with_sql_model=n_sqlmodel, query_shapes_compared=n_shape))
    v.coverage.update(extra_cov)
    if level_rule:
        v.coverage["rule"] += "; " + level_rule
    v.assumptions = list(assumptions)
    return v.finish("proof")


def spec_diffs_of(p, be, ro):
    """`spec_differs` diffs of one run against the Lean Spec"""
    out = []
    if not front.spec_supported(p):
        return out
    m = front.model_run([(p, be, ro)], with_data=True)[0]
    if m is None:
        return out
    spec = front.spec_frames(m, "spec")
    for stt, o in zip(p["stmts"], ro):
        if stt["op"] == "export" and o["outcome"] == "ok" and stt["id"] in spec:
            d = oracle.compare_frames(o["frame"], spec[stt["id"]], bool(stt.get("ordered")))
            if d:
                out.append(dict(kind="spec_differs", stmt=stt["id"], op="export", backend=be, detail=d,
                                dclass="names" if d.startswith("names") else "rowcount" if d.startswith("row counts") else "cell"))
    return out


def directed_search(results, corr, findings, prop, seed, max_programs=12, variants=12):
    from . import gen, triggers

    by_seed = {r["seed"]: r for r in results if "crash" not in r}
    seeds = []
    for c in corr:
        if c.get("seed") in by_seed and (c["seed"], c.get("stmt")) not in seeds:
            seeds.append((c["seed"], c.get("stmt")))
    found = []
    for s, stmt in seeds[:max_programs]:
        r = by_seed[s]
        base = r["program"]
        ids = {x["id"] for x in base["stmts"]}
        if stmt in ids and not stmt.startswith("x"):
            # export right where the model and the code part ways: later verbs may wash the difference out
            anc = campaign.ancestors(base, stmt)
            base = dict(base, stmts=[x for x in base["stmts"] if x["id"] in anc] +
                        [dict(id="x1", op="export", src=stmt, target="polars", ordered=False)])
        bases = [base]
        last = next((x for x in base["stmts"] if x["id"] == stmt), None)
        if last is not None and len(last.get("cols", [])) > 1 and base is not r["program"]:
            # one new column at a time: a known finding triggered by one column must not hide another column
            for col in last["cols"]:
                bases.append(dict(base, stmts=[dict(x, cols=[col]) if x["id"] == stmt else x for x in base["stmts"]]))
        for k in range(variants * len(bases)):
            c = gen.vary_tables(bases[k % len(bases)], seed * 7919 + k)
            try:
                po, so = oracle.run_both(c)
                diffs = oracle.diff_c01(c, po, so) + spec_diffs_of(c, "polars", po) + spec_diffs_of(c, "sqlite", so)
                trig = triggers.triggers_of(c, triggers.analyze(c, po))
            except Exception:  # noqa: BLE001
                continue
            _, nw = campaign.classify(c, diffs, trig, findings, prop)
            if nw:
                found.append((dict(r, program=c), nw[0]))
                break
        if len(found) >= 3:
            break
    return found


def report_new_spec(v, new, max_reports=6):
    """like c08.report_new, with a shrinker predicate that also understands `spec_differs`"""
    import json

    from . import prog as P
    from . import shrink

    groups = {}
    for r, d in new:
        groups.setdefault((d["kind"], d.get("op"), d.get("exc"), d.get("backend"), d.get("dclass")), []).append((r, d))
    for key, items in list(groups.items())[:max_reports]:
        r, d = items[0]
        payload = dict(kind=key[0], op=key[1], exc=key[2], backend=key[3], n_cases=len(items), first_diff=d, seeds=[x[0]["seed"] for x in items[:10] if x[0]])
        if r is not None:
            def fails(c, d=d):
                po, so = oracle.run_both(c)
                if d["kind"] == "spec_differs":
                    be = d["backend"]
                    ro = po if be == "polars" else so
                    if not front.spec_supported(c):
                        return False
                    m = front.model_run([(c, be, ro)], with_data=True)[0]
                    if m is None:
                        return False
                    spec = front.spec_frames(m, "spec")
                    for stt, o in zip(c["stmts"], ro):
                        if stt["op"] == "export" and o["outcome"] == "ok" and stt["id"] in spec:
                            dd = oracle.compare_frames(o["frame"], spec[stt["id"]], bool(stt.get("ordered")))
                            if dd and (("names" if dd.startswith("names") else "rowcount" if dd.startswith("row counts") else "cell") == d.get("dclass")):
                                return True
                    return False
                return any(x["kind"] == d["kind"] and x.get("exc") == d.get("exc") and x.get("dclass") == d.get("dclass")
                           for x in oracle.diff_c01(c, po, so))
            try:
                small = shrink.shrink(r["program"], fails, budget_s=25, keep=[d["stmt"]])
            except Exception:  # noqa: BLE001
                small = r["program"]
            payload["program"] = small
            payload["original_seed"] = r["seed"]
            payload["profile"] = r["profile"]
        v.violation("-".join(str(k) for k in key if k), payload)
