"""Seeded generator of in-domain programs (DESIGN.md section 2.7 / section 4).

Every random choice derives from one `random.Random`; programs are in the domain of
backend-independent results *by construction*:
  * ints in [-40, 40] in data, literals small, products at most two deep;
  * floats are dyadic (multiples of 1/8), never used as keys;
  * strings over a small ASCII alphabet without case pairs;
  * division / modulo only by non-zero literals;
  * nullable arrange / window-order keys carry nulls_first / nulls_last;
  * order-sensitive constructs (slice_head, shift, row_number, cum_sum) only under a total order
    (a unique row-id column is appended as the last key).
"""

from __future__ import annotations

import copy
import random
import dataclasses
from dataclasses import dataclass, field

ALPHA = "abcxy "


@dataclass
class ColInfo:
    cid: int                      # generator-side identity
    cls: str                      # int | float | bool | string
    nullable: bool
    handles: list                 # [(tableVar, name)] through which it can be referenced as tableVar.name
    unique: bool = False          # values pairwise distinct and non-null (row id)
    kind: str = "ewise"           # ewise | window | agg  (how it was defined; for SQL state)
    small: bool = True            # int magnitude small enough to multiply
    const: bool = False           # defined by a column-free expression (constant column)


@dataclass
class TV:
    tid: str
    visible: list = field(default_factory=list)      # [(name, cid)]
    scope: dict = field(default_factory=dict)        # cid -> ColInfo
    group: list = field(default_factory=list)        # [cid]
    sources: set = field(default_factory=set)        # source/alias node ids it derives from
    order_total: bool = False                        # current row order is defined and total
    keys: list = field(default_factory=list)         # cids that together identify a row (non-null)
    # SQL-side state mirroring Cache (to steer towards / away from SubqueryError)
    limit: bool = False
    summarized: bool = False
    has_window: bool = False
    filtered: bool = False
    aliased: bool = False
    joined: bool = False
    nrows_hint: int = 0

    def names(self):
        return [n for n, _ in self.visible]

    def vis_cids(self):
        return [c for _, c in self.visible]


class Gen:
    def __init__(self, seed: int, *, max_rows=10, profile="general"):
        self.rng = random.Random(seed)
        self.seed = seed
        self.max_rows = max_rows
        self.profile = profile
        self.next_cid = 0
        self.next_t = 0
        self.next_e = 0
        self.tables = []
        self.stmts = []
        self.tvs: dict[str, TV] = {}
        self.features: set[str] = set()
        self.ops_used: set[str] = set()

    # ------------------------------------------------------------------ data
    def new_cid(self):
        self.next_cid += 1
        return self.next_cid

    def gen_values(self, cls, n, null_density, dup_heavy):
        r = self.rng
        out = []
        pool = None
        if dup_heavy:
            pool = [self.one_value(cls) for _ in range(max(1, n // 3))]
        for _ in range(n):
            if r.random() < null_density:
                out.append(None)
            else:
                out.append(r.choice(pool) if pool else self.one_value(cls))
        return out

    def one_value(self, cls):
        r = self.rng
        if cls == "int":
            return r.choice([0, 1, -1, 2, 3, -3, 7, -7, 12, 40, -40, r.randint(-40, 40)])
        if cls == "float":
            return r.randint(-64, 64) / 8.0
        if cls == "bool":
            return r.random() < 0.5
        if cls == "string":
            k = r.choice([0, 1, 1, 2, 3, 5])
            return "".join(r.choice(ALPHA) for _ in range(k))
        raise ValueError(cls)

    def gen_table(self, name, ncols=None, nrows=None):
        r = self.rng
        if nrows is None:
            nrows = r.choice([0, 1, 2, 3, 5, 8, self.max_rows])
            if self.profile == "tall":
                nrows = r.choice([101, 128])      # beyond polars' schema inference window; long null prefixes below
        ncols = ncols or r.randint(2, 5)
        cols = [dict(name="id", dtype="int64", vals=self.shuffled(list(range(1, nrows + 1))))]
        meta = [("id", "int", False, True)]
        used = {"id"}
        for i in range(ncols):
            cls = r.choice(["int", "int", "int", "float", "bool", "string", "string"])
            nm = r.choice(["a", "b", "c", "d", "g", "h", "k", "x", "y"])
            while nm in used:
                nm = nm + r.choice("123")
            used.add(nm)
            nd = r.choice([0.0, 0.0, 0.3, 0.3, 1.0 if r.random() < 0.15 else 0.3])
            vals = self.gen_values(cls, nrows, nd, dup_heavy=r.random() < 0.6)
            if self.profile == "tall" and r.random() < 0.6:
                k = min(r.choice([100, 105, nrows - 1]), nrows)
                vals = [None] * k + vals[k:]
                nd = max(nd, 0.3)
                self.features.add("long_null_prefix")
            dtype = {"int": "int64", "float": "float64", "bool": "bool", "string": "string"}[cls]
            cols.append(dict(name=nm, dtype=dtype, vals=vals))
            meta.append((nm, cls, nd > 0, False))
        self.tables.append(dict(name=name, cols=cols))
        return meta, nrows

    def shuffled(self, l):
        self.rng.shuffle(l)
        return l

    # ------------------------------------------------------------------ statements
    def fresh_t(self):
        self.next_t += 1
        return f"t{self.next_t}"

    def add_source(self, tname):
        meta, nrows = self.gen_table(tname)
        tid = self.fresh_t()
        tv = TV(tid=tid, sources={tid}, nrows_hint=nrows)
        for nm, cls, nullable, unique in meta:
            cid = self.new_cid()
            tv.scope[cid] = ColInfo(cid, cls, nullable, [(tid, nm)], unique=unique)
            tv.visible.append((nm, cid))
            if unique:
                tv.keys = [cid]
        self.stmts.append(dict(id=tid, op="source", table=tname))
        self.tvs[tid] = tv
        return tv

    def derive(self, src: TV) -> TV:
        tv = copy.deepcopy(src)
        tv.tid = self.fresh_t()
        # column handles are shared objects conceptually: keep identity but copy lists
        return tv

    def register(self, tv: TV):
        for nm, cid in tv.visible:
            h = (tv.tid, nm)
            if h not in tv.scope[cid].handles:
                tv.scope[cid].handles.append(h)
        self.tvs[tv.tid] = tv

    # ------------------------------------------------------------------ expression generation
    def ref(self, tv: TV, cid: int):
        """a reference expression for column `cid` usable on table `tv`"""
        info = tv.scope[cid]
        r = self.rng
        vis = [n for n, c in tv.visible if c == cid]
        choices = []
        if vis:
            choices += [{"c": vis[0]}] * 2
        for (t, n) in info.handles:
            if t in self.tvs or t == tv.tid:
                choices.append({"col": [t, n]})
        if not choices:
            return None
        ch = r.choice(choices)
        if "col" in ch and ch["col"][0] != tv.tid:
            self.features.add("ref_via_ancestor")
        if "c" in ch:
            self.features.add("ref_via_C")
        return ch

    def cols_of(self, tv: TV, cls, *, kinds=("ewise",), hidden_ok=True, nonnull=False):
        out = []
        vis = set(tv.vis_cids())
        for cid, info in tv.scope.items():
            if info.cls != cls or info.kind not in kinds:
                continue
            if info.const:
                continue        # literal-defined columns trip the Polars optimizer (D51) and the D42 family
            if nonnull and info.nullable:
                continue
            if cid not in vis and not hidden_ok:
                continue
            if cid not in vis and not any(t in self.tvs for t, _ in info.handles):
                continue
            out.append(cid)
        return out

    def lit(self, cls, none_ok=False):
        r = self.rng
        if none_ok and r.random() < 0.15:
            return {"lit": None}
        if cls == "int":
            return {"lit": r.choice([0, 1, 2, -1, 3, -3, 5, 7])}
        if cls == "float":
            return {"lit": r.choice([0.5, -1.25, 2.0, 0.0, 3.5])}
        if cls == "bool":
            return {"lit": r.random() < 0.5}
        if cls == "string":
            return {"lit": r.choice(["", "a", "b", "ab", "x y", "c"])}
        raise ValueError(cls)

    def fn(self, op, *args, **kw):
        self.ops_used.add(op)
        d = {"fn": op, "args": list(args)}
        d.update({k: v for k, v in kw.items() if v is not None})
        return d

    def leaf(self, tv, cls, kinds):
        r = self.rng
        cands = self.cols_of(tv, cls, kinds=kinds)
        if cands and r.random() < 0.8:
            e = self.ref(tv, r.choice(cands))
            if e is not None:
                return e
        return self.lit(cls)

    def ewise(self, tv: TV, cls: str, depth: int, kinds=("ewise",), mul_ok=True):
        """element-wise expression; constant-only operator calls are avoided (engine finding D51)"""
        from .triggers import _has_col, _valfree, _walk

        for _ in range(4):
            e = self._ewise(tv, cls, depth, kinds, mul_ok)
            bad = []
            _walk(e, lambda d: bad.append(1) if ("fn" in d and d.get("args") and not _has_col(d)) or ("case" in d and not _has_col(d))
                  or ("case" in d and any(not _has_col(b) for b in d["case"]))      # a literal-only when/then branch (engine finding D51)
                  or ("fn" in d and d.get("args") and all(_valfree(a) for a in d["args"]))   # operator over values no column reaches (D51)
                  or ("cast" in d and not _has_col(d)) else None)
            if not bad:
                return e
        return self.leaf(tv, cls, kinds)

    def _ewise(self, tv: TV, cls: str, depth: int, kinds=("ewise",), mul_ok=True):
        """element-wise expression of class `cls` over columns of `kinds`"""
        r = self.rng
        if depth <= 0 or r.random() < 0.25:
            return self.leaf(tv, cls, kinds)
        d = depth - 1
        E = lambda c, **k: self._ewise(tv, c, d, kinds, **k)  # noqa: E731
        if cls == "int":
            k = r.choice(["add", "sub", "mul", "neg", "abs", "floordiv", "mod", "fill_null", "hmax", "hmin", "hsum",
                          "coalesce", "clip", "case", "cast_bool", "str_len", "add_bool", "pos"])
            if k in ("add", "sub"):
                return self.fn(k, E("int"), E("int"))
            if k == "mul":
                if not mul_ok:
                    return self.fn("add", E("int"), E("int"))
                return self.fn("mul", self.leaf(tv, "int", kinds), r.choice([self.lit("int"), self.leaf(tv, "int", kinds)]))
            if k in ("neg", "abs", "pos"):
                return self.fn(k, E("int"))
            if k in ("floordiv", "mod"):
                return self.fn(k, E("int", mul_ok=False), {"lit": r.choice([1, 2, 3, -2, -3, 7, -7])})
            if k == "fill_null":
                return self.fn("fill_null", E("int"), E("int"))
            if k in ("hmax", "hmin", "hsum"):
                op = {"hmax": "horizontal_max", "hmin": "horizontal_min", "hsum": "horizontal_sum"}[k]
                return self.fn(op, *[E("int", mul_ok=False) for _ in range(r.randint(1, 3))])
            if k == "coalesce":
                return self.fn("coalesce", *[E("int") for _ in range(r.randint(1, 3))])
            if k == "clip":
                lo = r.choice([-5, -1, 0, 2])
                return self.fn("clip", E("int"), {"lit": lo}, {"lit": lo + r.choice([0, 1, 4, 10])})
            if k == "case":
                return self.case(tv, "int", d, kinds)
            if k == "cast_bool":
                return {"cast": E("bool"), "to": "int64"}
            if k == "str_len":
                return self.fn("str_len", E("string"))
            if k == "add_bool":
                return self.fn("add", E("bool"), E("bool"))
        if cls == "float":
            k = r.choice(["add", "sub", "mul_lit", "neg", "abs", "truediv", "cast_int", "fill_null", "case", "floor", "ceil", "hmax",
                          "case_widen", "cast_abstract"])
            if k == "case_widen":
                # int branches, float literal default: the literal takes part in the supertype (Float)
                n = r.randint(1, 2)
                self.features.add("case_widen")
                return {"case": [[self.ewise(tv, "bool", d - 1 if d > 1 else 1, kinds), E("int", mul_ok=False)] for _ in range(n)],
                        "default": {"lit": r.choice([0.5, -1.25, 3.5])}}
            if k == "cast_abstract":
                self.features.add("cast_abstract_float")
                return {"cast": E("int", mul_ok=False), "to": "float"}
            if k in ("add", "sub"):
                return self.fn(k, E("float"), E("float"))
            if k == "mul_lit":
                return self.fn("mul", self.leaf(tv, "float", kinds), {"lit": r.choice([0.5, 2.0, -4.0])})
            if k in ("neg", "abs", "floor", "ceil"):
                return self.fn(k, E("float"))
            if k == "truediv":
                return self.fn("truediv", E("int", mul_ok=False), {"lit": r.choice([2, 4, -8])})
            if k == "cast_int":
                return {"cast": E("int", mul_ok=False), "to": "float64"}
            if k == "fill_null":
                return self.fn("fill_null", E("float"), E("float"))
            if k == "case":
                return self.case(tv, "float", d, kinds)
            if k == "hmax":
                return self.fn(r.choice(["horizontal_max", "horizontal_min"]), *[E("float") for _ in range(r.randint(1, 3))])
        if cls == "bool":
            k = r.choice(["cmp_int", "cmp_int", "cmp_str", "cmp_float", "eq", "and", "or", "xor", "not", "is_null", "is_not_null",
                          "is_in", "hany", "hall", "starts", "ends", "contains", "case", "fill_null"])
            if k == "cmp_int":
                return self.fn(r.choice(["less_than", "less_equal", "greater_than", "greater_equal", "equal", "not_equal"]), E("int"), E("int"))
            if k == "cmp_float":
                return self.fn(r.choice(["less_than", "greater_equal"]), E("float"), E("float"))
            if k == "cmp_str":
                return self.fn(r.choice(["less_than", "less_equal", "greater_than", "greater_equal", "equal", "not_equal"]), E("string"), E("string"))
            if k == "eq":
                c = r.choice(["bool", "int", "string"])
                return self.fn(r.choice(["equal", "not_equal"]), E(c), E(c))
            if k in ("and", "or", "xor"):
                return self.fn("bool_" + k, E("bool"), E("bool"))
            if k == "not":
                return self.fn("bool_invert", E("bool"))
            if k in ("is_null", "is_not_null"):
                return self.fn(k, E(r.choice(["int", "string", "bool", "float"])))
            if k == "is_in":
                c = r.choice(["int", "string"])
                return self.fn("is_in", E(c), *[self.lit(c, none_ok=True) for _ in range(r.randint(1, 3))])
            if k in ("hany", "hall"):
                return self.fn("horizontal_any" if k == "hany" else "horizontal_all", *[E("bool") for _ in range(r.randint(1, 3))])
            if k in ("starts", "ends", "contains"):
                pat = {"lit": r.choice(["", "a", "ab", "x", " ", "b"])}
                if k == "contains":
                    return self.fn("str_contains", E("string"), pat, {"lit": False}, {"lit": False})
                return self.fn("str_starts_with" if k == "starts" else "str_ends_with", E("string"), pat)
            if k == "case":
                return self.case(tv, "bool", d, kinds)
            if k == "fill_null":
                return self.fn("fill_null", E("bool"), E("bool"))
        if cls == "string":
            # no str.upper: SQLite's LIKE-based operators are case-insensitive (section 4.5), the alphabet is lower-case only
            k = r.choice(["concat", "lower", "lower", "strip", "replace", "fill_null", "case", "coalesce", "cast_int", "hmax", "slice"])
            if k == "concat":
                return self.fn("add", E("string"), E("string"))
            if k in ("upper", "lower", "strip"):
                return self.fn("str_" + k, E("string"))
            if k == "replace":
                return self.fn("str_replace_all", E("string"), {"lit": r.choice(["a", "ab", " ", "x"])}, {"lit": r.choice(["", "y", "bb"])})
            if k == "fill_null":
                return self.fn("fill_null", E("string"), E("string"))
            if k == "case":
                return self.case(tv, "string", d, kinds)
            if k == "coalesce":
                return self.fn("coalesce", *[E("string") for _ in range(r.randint(1, 3))])
            if k == "cast_int":
                return {"cast": E("int", mul_ok=False), "to": "string"}
            if k == "hmax":
                return self.fn(r.choice(["horizontal_max", "horizontal_min"]), *[E("string") for _ in range(r.randint(1, 3))])
            if k == "slice":
                return self.fn("str_slice", E("string"), {"lit": r.choice([0, 1, 2])}, {"lit": r.choice([0, 1, 3])})
        return self.leaf(tv, cls, kinds)

    def case(self, tv, cls, d, kinds):
        r = self.rng
        n = r.randint(1, 3)
        cases = [[self.ewise(tv, "bool", d, kinds), self.ewise(tv, cls, d, kinds)] for _ in range(n)]
        out = {"case": cases}
        if r.random() < 0.7:
            out["default"] = self.ewise(tv, cls, d, kinds) if r.random() < 0.85 else {"lit": None}
        self.features.add("case")
        return out

    def order_keys(self, tv: TV, *, total: bool, kinds=("ewise",)):
        """arrange keys; nullable keys get a nulls marker; `total` appends the row keys"""
        r = self.rng
        keys = []
        used = set()
        cands = [cid for cid in tv.scope if tv.scope[cid].cls in ("int", "string", "bool") and tv.scope[cid].kind in kinds
                 and not tv.scope[cid].const and self.ref(tv, cid) is not None]
        for _ in range(r.randint(0 if total else 1, 2)):
            if not cands:
                break
            cid = r.choice(cands)
            if cid in used:
                continue
            used.add(cid)
            e = self.ref(tv, cid)
            if tv.scope[cid].cls == "int" and r.random() < 0.2:
                e = self.fn("neg", e)
            e = self.mark(e, nullable=tv.scope[cid].nullable)
            keys.append(e)
        if total:
            if not tv.keys or any(self.ref(tv, k) is None for k in tv.keys):
                return None
            for k in tv.keys:
                if k not in used:
                    keys.append(self.mark(self.ref(tv, k), nullable=False))
        return keys or None

    def mark(self, e, nullable):
        r = self.rng
        direction = r.choice(["descending", "descending", "ascending"]) if r.random() < 0.4 else None
        nulls = r.choice(["nulls_first", "nulls_last"]) if (nullable or r.random() < 0.2) else None
        if nulls:
            self.features.add("nulls_marker")
        # the two markers commute: x.descending().nulls_last() and x.nulls_last().descending() mean the same
        order = [direction, nulls] if r.random() < 0.5 else [nulls, direction]
        if direction and nulls and order[0] == nulls:
            self.features.add("nulls_marker_inside")
        for mk in order:
            if mk:
                e = self.fn(mk, e)
        return e

    def agg(self, tv: TV, cls: str, depth, *, window: bool, part_explicit=None):
        """aggregate (summarize) or aggregate-as-window (mutate) expression"""
        r = self.rng
        kw = {}
        if part_explicit is not None:
            kw["partition_by"] = part_explicit
        if r.random() < 0.25:
            # one condition, or a list of conditions (all of them must hold)
            kw["filter"] = [self.ewise(tv, "bool", 1) for _ in range(1 if r.random() < 0.55 else 2)]
            self.features.add("agg_filter" if len(kw["filter"]) == 1 else "agg_filter_list")
        def arg(c):
            e = self.with_col(tv, c, depth - 1, mul_ok=False)
            return e if e is not None else self.ewise(tv, c, depth - 1, mul_ok=False)
        if cls == "int":
            k = r.choice(["sum", "min", "max", "count", "count_star", "sum_bool"])
            if k == "count_star":
                kw.pop("filter", None)
                return self.fn("count_star", **kw)
            if k == "count":
                return self.fn("count", arg(r.choice(["int", "string", "bool"])), **kw)
            if k == "sum_bool":
                return self.fn("sum", arg("bool"), **kw)
            return self.fn(k, arg("int"), **kw)
        if cls == "float":
            k = r.choice(["sum", "min", "max", "mean", "mean_int"])
            if k == "mean_int":
                return self.fn("mean", arg("int"), **kw)
            return self.fn(k, arg("float"), **kw)
        if cls == "bool":
            return self.fn(r.choice(["any", "all", "min", "max"]), arg("bool"), **kw)
        if cls == "string":
            return self.fn(r.choice(["min", "max"]), arg("string"), **kw)
        raise ValueError(cls)

    def with_col(self, tv, cls, depth, **kw):
        """element-wise expression that mentions at least one column (window function arguments)"""
        from .triggers import _has_col

        for _ in range(6):
            e = self.ewise(tv, cls, depth, **kw)
            if _has_col(e):
                return e
        cands = self.cols_of(tv, cls)
        for c in cands:
            e = self.ref(tv, c)
            if e is not None:
                return e
        return None

    def window(self, tv: TV, cls: str, *, part_explicit=None):
        """true window function with a total arrange= order"""
        r = self.rng
        keys = self.order_keys(tv, total=True)
        if keys is None:
            return None
        kw = {"arrange": keys}
        if part_explicit is not None:
            kw["partition_by"] = part_explicit
        if cls == "int":
            k = r.choice(["row_number", "rank", "dense_rank", "shift", "cum_sum"])
            if k in ("row_number", "rank", "dense_rank"):
                return self.fn(k, **kw)
            a = self.with_col(tv, "int", 1, mul_ok=False)
            if a is None:
                return self.fn("row_number", **kw)
            if k == "shift":
                return self.fn("shift", a, {"lit": r.choice([1, -1, 2, 0])},
                               {"lit": r.choice([0, -9]) if r.random() < 0.4 else None}, **kw)
            return self.fn("cum_sum", a, **kw)
        if cls in ("string", "bool"):
            a = self.with_col(tv, cls, 1)
            if a is None:
                return None
            return self.fn("shift", a, {"lit": r.choice([1, -1])}, {"lit": None}, **kw)
        return None

    def over_agg(self, tv, cls, depth, **k):
        """element-wise expression over one aggregate / window sub-expression"""
        r = self.rng
        a = self.agg(tv, cls, depth, **k)
        if r.random() < 0.35 and cls in ("int", "float"):
            return self.fn(r.choice(["add", "sub"]), a, self.lit(cls))
        if r.random() < 0.15:
            return self.fn("fill_null", a, self.lit(cls))
        return a

    # ------------------------------------------------------------------ verbs
    def new_name(self, tv: TV, overwrite_p=0.15):
        r = self.rng
        if tv.visible and r.random() < overwrite_p:
            self.features.add("overwrite")
            return r.choice(tv.names())
        base = r.choice(["u", "v", "w", "z", "p", "q", "s", "m", "n"])
        nm = base
        names = set(tv.names())
        while nm in names:
            nm = base + str(r.randint(1, 99))
        return nm

    def v_mutate(self, src: TV, mode="ewise"):
        r = self.rng
        tv = self.derive(src)
        cols = []
        newcols = []
        for _ in range(r.randint(1, 3)):
            cls = r.choice(["int", "int", "float", "bool", "string"])
            kind = "ewise"
            e = None
            if mode == "window" and r.random() < 0.7:
                part = None
                if not src.group and r.random() < 0.5:
                    pc = self.cols_of(src, r.choice(["int", "string", "bool"]))
                    if pc:
                        part = [self.ref(src, r.choice(pc))]
                        self.features.add("partition_by_kw")
                if r.random() < 0.5:
                    e = self.window(src, cls, part_explicit=part)
                    if e is not None:
                        self.features.add("window_fn")
                if e is None:
                    e = self.over_agg(src, cls, 2, window=True, part_explicit=part)
                    self.features.add("agg_as_window")
                kind = "window"
            if e is None:
                e = self.ewise(src, cls, r.randint(1, 3), kinds=("ewise", "window", "agg") if r.random() < 0.3 else ("ewise",))
            nm = self.new_name(tv)
            while nm in [c[0] for c in cols]:
                nm = nm + "_"
            from .triggers import _has_col
            cols.append([nm, e])
            newcols.append((nm, cls, kind, not _has_col(e)))
        for nm, cls, kind, const in newcols:
            cid = self.new_cid()
            tv.scope[cid] = ColInfo(cid, cls, True, [], kind=kind, const=const)
            tv.visible = [(n, c) for n, c in tv.visible if n != nm] + [(nm, cid)]
            if kind == "window":
                tv.has_window = True
        self.stmts.append(dict(id=tv.tid, op="mutate", src=src.tid, cols=cols))
        self.register(tv)
        return tv

    def v_filter(self, src: TV):
        tv = self.derive(src)
        preds = [self.ewise(src, "bool", self.rng.randint(1, 3), kinds=("ewise", "window", "agg") if self.rng.random() < 0.3 else ("ewise",))
                 for _ in range(self.rng.randint(1, 2))]
        tv.filtered = True
        self.stmts.append(dict(id=tv.tid, op="filter", src=src.tid, preds=preds))
        self.register(tv)
        return tv

    def v_select(self, src: TV):
        r = self.rng
        tv = self.derive(src)
        vis = list(src.visible)
        keep = [v for v in vis if r.random() < 0.7 or v[1] in src.group] or vis[:1]
        if r.random() < 0.4:
            r.shuffle(keep)
            self.features.add("select_reorder")
        tv.visible = keep
        if len(keep) < len(vis):
            self.features.add("hidden_cols")
        cols = [self.ref(src, cid) if r.random() < 0.7 else nm for nm, cid in keep]
        self.stmts.append(dict(id=tv.tid, op="select", src=src.tid, cols=cols))
        self.register(tv)
        return tv

    def v_drop(self, src: TV):
        r = self.rng
        cand = [v for v in src.visible if v[1] not in src.group]
        if len(cand) < 2:
            return None
        tv = self.derive(src)
        dropped = r.sample(cand, r.randint(1, max(1, len(cand) // 2)))
        tv.visible = [v for v in src.visible if v not in dropped]
        self.features.add("hidden_cols")
        self.stmts.append(dict(id=tv.tid, op="drop", src=src.tid, cols=[self.ref(src, c) if r.random() < 0.5 else n for n, c in dropped]))
        self.register(tv)
        return tv

    def v_rename(self, src: TV):
        r = self.rng
        tv = self.derive(src)
        vis = list(src.visible)
        chosen = r.sample(vis, r.randint(1, min(2, len(vis))))
        names = set(src.names())
        m = []
        newvis = list(vis)
        if len(chosen) == 2 and r.random() < 0.3:
            (n1, c1), (n2, c2) = chosen
            m = [[n1, n2], [n2, n1]]
            newvis = [(n2, c) if c == c1 else (n1, c) if c == c2 else (n, c) for n, c in vis]
            self.features.add("rename_swap")
        else:
            for n, c in chosen:
                hidden_names = {h[1] for cid, info in src.scope.items() if cid not in src.vis_cids() for h in info.handles}
                if hidden_names - names and r.random() < 0.3:
                    nn = r.choice(sorted(hidden_names - names))
                    self.features.add("rename_onto_hidden_name")
                else:
                    nn = n + r.choice(["_r", "2", "x"])
                if nn in names or nn in [x[1] for x in m]:
                    continue
                key = n if r.random() < 0.6 else self.ref(src, c)
                m.append([key, nn])
                newvis = [(nn, cc) if cc == c else (nm, cc) for nm, cc in newvis]
                names.add(nn)
        if not m:
            return None
        tv.visible = newvis
        self.stmts.append(dict(id=tv.tid, op="rename", src=src.tid, map=m))
        self.register(tv)
        return tv

    def v_arrange(self, src: TV, total=None):
        r = self.rng
        total = r.random() < 0.6 if total is None else total
        keys = self.order_keys(src, total=total, kinds=("ewise", "window", "agg"))
        if not keys:
            return None
        tv = self.derive(src)
        tv.order_total = bool(total)
        self.stmts.append(dict(id=tv.tid, op="arrange", src=src.tid, by=keys))
        self.register(tv)
        if r.random() < 0.3:
            # a second arrange on top that repeats the first key with the opposite markers: the later
            # arrange takes priority, the earlier order (still total, the sort is stable) breaks ties
            markers = ("descending", "ascending", "nulls_first", "nulls_last")
            base, seen = keys[0], []
            while isinstance(base, dict) and base.get("fn") in markers:
                seen.append(base["fn"])
                base = base["args"][0]
            e = base if "descending" in seen else self.fn("descending", base)
            if "nulls_first" in seen:
                e = self.fn("nulls_last", e)
            elif "nulls_last" in seen:
                e = self.fn("nulls_first", e)
            tv2 = self.derive(tv)
            tv2.order_total = tv.order_total
            self.stmts.append(dict(id=tv2.tid, op="arrange", src=tv.tid, by=[e]))
            self.register(tv2)
            self.features.add("arrange_restacked")
            return tv2
        return tv

    def v_slice(self, src: TV):
        r = self.rng
        if not src.order_total or src.group:
            return None
        tv = self.derive(src)
        tv.limit = True
        self.stmts.append(dict(id=tv.tid, op="slice_head", src=src.tid, n=r.choice([0, 1, 2, 3, 5, 100]), offset=r.choice([0, 0, 1, 2, 4])))
        self.register(tv)
        if r.random() < 0.3:
            # a second window directly on top of the first (limit/offset composition, possibly empty)
            tv2 = self.derive(tv)
            tv2.limit = True
            n1 = self.stmts[-1]["n"]
            # the second offset may lie beyond the first window (empty result; the combined LIMIT must not go negative)
            self.stmts.append(dict(id=tv2.tid, op="slice_head", src=tv.tid, n=r.choice([0, 1, 2, 3]), offset=r.choice([0, 1, 2, 3, n1 + 1 if n1 < 50 else 1])))
            self.register(tv2)
            return tv2
        return tv

    def v_group_by(self, src: TV):
        r = self.rng
        cand = [(n, c) for n, c in src.visible if src.scope[c].cls in ("int", "string", "bool") and src.scope[c].kind == "ewise"
                and not src.scope[c].const]
        if not cand:
            return None
        tv = self.derive(src)
        ch = r.sample(cand, r.randint(1, min(2, len(cand))))
        add = bool(src.group) and r.random() < 0.3
        if add:
            ch = [x for x in ch if x[1] not in src.group]
            if not ch:
                return None
        tv.group = (list(src.group) if add else []) + [c for _, c in ch]
        st = dict(id=tv.tid, op="group_by", src=src.tid, cols=[self.ref(src, c) if r.random() < 0.6 else n for n, c in ch])
        if add:
            st["add"] = True
        self.stmts.append(st)
        self.register(tv)
        return tv

    def v_ungroup(self, src: TV):
        if not src.group:
            return None
        tv = self.derive(src)
        tv.group = []
        self.stmts.append(dict(id=tv.tid, op="ungroup", src=src.tid))
        self.register(tv)
        return tv

    def v_summarize(self, src: TV):
        r = self.rng
        tv = self.derive(src)
        cols = []
        new = []
        for _ in range(r.randint(1, 3)):
            cls = r.choice(["int", "int", "float", "bool", "string"])
            e = self.over_agg(src, cls, 2, window=False)
            if src.group and r.random() < 0.2:
                gc = [c for c in src.group if src.scope[c].cls == "int"]
                if gc and cls == "int":
                    e = self.fn("add", e, self.ref(src, gc[0]))
                    self.features.add("group_col_in_agg_expr")
            nm = self.new_name(tv, overwrite_p=0.08)
            while nm in [c[0] for c in cols]:
                nm += "_"
            cols.append([nm, e])
            new.append((nm, cls))
        keep = [(n, c) for n, c in src.visible if c in src.group]
        # grouping columns in partition_by order
        keep = [(n, c) for c0 in src.group for n, c in src.visible if c == c0]
        tv.scope = {c: src.scope[c] for _, c in keep}
        tv.visible = list(keep)
        for nm, cls in new:
            cid = self.new_cid()
            tv.scope[cid] = ColInfo(cid, cls, True, [], kind="agg")
            tv.visible = [(n, c) for n, c in tv.visible if n != nm] + [(nm, cid)]
        tv.keys = [c for _, c in keep] if all(not src.scope[c].nullable for _, c in keep) and keep else []
        tv.group = []
        tv.summarized = True
        tv.order_total = False
        tv.has_window = False
        self.stmts.append(dict(id=tv.tid, op="summarize", src=src.tid, cols=cols))
        self.register(tv)
        return tv

    def v_alias(self, src: TV, keep=False):
        tv = self.derive(src)
        if not keep:
            # fresh identities: old references die, handles only through the alias
            mp = {}
            for cid, info in list(tv.scope.items()):
                n = self.new_cid()
                mp[cid] = n
            newscope = {}
            for cid, info in tv.scope.items():
                ni = copy.deepcopy(info)
                ni.cid = mp[cid]
                ni.handles = []
                ni.kind = "ewise"
                newscope[mp[cid]] = ni
            tv.scope = newscope
            tv.visible = [(n, mp[c]) for n, c in tv.visible]
            tv.group = [mp[c] for c in tv.group]
            tv.keys = [mp[c] for c in tv.keys]
            tv.sources = {tv.tid}
        tv.aliased = True
        st = dict(id=tv.tid, op="alias", src=src.tid)
        if keep:
            st["keep_col_refs"] = True
        if self.rng.random() < 0.5:
            st["name"] = "al" + tv.tid
        self.stmts.append(st)
        self.register(tv)
        self.features.add("alias_keep" if keep else "alias")
        return tv

    def v_join(self, left: TV, right: TV, how=None):
        r = self.rng
        if left.group or right.group or (left.sources & right.sources):
            return None
        how = how or r.choice(["inner", "inner", "left", "full"])
        # equality on a shared-class column pair, optionally plus an inequality
        pairs = [(lc, rc) for lc in left.vis_cids() for rc in right.vis_cids()
                 if left.scope[lc].cls == right.scope[rc].cls and left.scope[lc].cls in ("int", "string", "bool")
                 and left.scope[lc].kind == "ewise" and right.scope[rc].kind == "ewise"
                 and not left.scope[lc].const and not right.scope[rc].const]
        if not pairs:
            return None
        lc, rc = r.choice(pairs)
        le, re = self.ref(left, lc), self.ref(right, rc)
        if "c" in le:
            le = {"col": [left.tid, [n for n, c in left.visible if c == lc][0]]}
        if "c" in re:
            re = {"col": [right.tid, [n for n, c in right.visible if c == rc][0]]}
        on = [self.fn("equal", le, re) if r.random() < 0.5 else self.fn("equal", re, le)]
        if how != "full" and r.random() < 0.3:
            ip = [(a, b) for a, b in pairs if left.scope[a].cls == "int"]
            if ip:
                a, b = r.choice(ip)
                la = {"col": [left.tid, [n for n, c in left.visible if c == a][0]]}
                rb = {"col": [right.tid, [n for n, c in right.visible if c == b][0]]}
                on.append(self.fn(r.choice(["less_than", "greater_equal", "not_equal"]), la, rb))
                self.features.add("join_ineq")
                if r.random() < 0.5:
                    on.append(self.fn(r.choice(["less_equal", "greater_than", "not_equal"]), rb, la) if r.random() < 0.5
                              else self.fn("is_not_null", la))
        if how != "full" and len(on) >= 2 and r.random() < 0.5:
            # the conjunction written as one expression: `a & b & c`, or pdt.all(a, b, c) with any number of arguments
            if r.random() < 0.5:
                conj = on[0]
                for p_ in on[1:]:
                    conj = self.fn("bool_and", conj, p_)
            else:
                conj = self.fn("horizontal_all", *on)
            on = [conj]
            self.features.add("join_on_conjunction")
        tv = self.derive(left)
        tv.scope.update(copy.deepcopy(right.scope))
        # names: mirror the documented suffix rule only as far as needed to know the result names:
        # we do not predict names here; the runner reports them. Visible list is refreshed lazily.
        tv.visible = None
        tv.sources = left.sources | right.sources
        # the pair of row keys identifies a row of an inner join only if both inputs have one
        tv.keys = left.keys + right.keys if (how == "inner" and left.keys and right.keys) else []
        tv.order_total = False
        tv.limit = False
        tv.summarized = False
        tv.filtered = left.filtered or right.filtered
        tv.joined = True
        st = dict(id=tv.tid, op="join", src=left.tid, right=right.tid, on=on, how=how)
        if r.random() < 0.2:
            st["suffix"] = r.choice(["_r", "_x", "_right"])
            self.features.add("join_user_suffix")
        self.stmts.append(st)
        self.features.add("join_" + how)
        self._pending_join = (tv, left, right)
        return tv

    def export(self, tv: TV, target="polars"):
        self.next_e += 1
        self.stmts.append(dict(id=f"x{self.next_e}", op="export", src=tv.tid, target=target, ordered=bool(tv.order_total)))

    def program(self):
        return dict(tables=self.tables, stmts=self.stmts, seed=self.seed, profile=self.profile)


# ---------------------------------------------------------------------------------------------
# joins need the result's column names (suffix rule); they are read off the real code at
# generation time, so the generator never predicts names itself
def _probe_columns(program: dict, tid: str):
    from . import prog as _prog

    obs = _prog.run_program(program, "polars", observe_cache=True)
    for ob in obs:
        if ob["id"] == tid:
            if ob.get("outcome") == "ok":
                return ob["cache"]["columns"]
            return None
    return None


def _finish_join(g: Gen):
    tv, left, right = g._pending_join
    cols = _probe_columns(g.program(), tv.tid)
    if cols is None or len(cols) != len(left.visible) + len(right.visible):
        g.stmts.pop()
        return None
    tv.visible = list(left.visible) + [(cols[len(left.visible) + i], c) for i, (_, c) in enumerate(right.visible)]
    if [n for n, _ in tv.visible[: len(left.visible)]] != cols[: len(left.visible)]:
        g.stmts.pop()
        return None
    if any(a != b for (a, _), (b, _) in zip(right.visible, tv.visible[len(left.visible):])):
        g.features.add("join_suffixed")
    g.register(tv)
    return tv


def v_union(g: Gen, left: TV):
    """right side = alias of the left table, pushed through row-level verbs, re-selected in a
    permuted order; or a second source with the same schema"""
    r = g.rng
    if left.group or left.joined:
        return None      # D45: table aliasing does not descend into a union's right input
    base = g.v_alias(left)
    cur = base
    for _ in range(r.randint(0, 2)):
        nxt = r.choice([g.v_filter, lambda t: g.v_mutate(t, "ewise")])(cur)
        cur = nxt or cur
    if r.random() < 0.3 and len(cur.visible) > 1:
        # replace a column of the right side by a computed one of the same name: the old column stays in scope,
        # hidden, under the same label (the union must pick the visible one)
        cands = [(n, c) for n, c in cur.visible if cur.scope[c].cls in ("int", "string", "bool", "float") and c not in cur.keys]
        if cands:
            n0, c0 = r.choice(cands)
            e = g.ewise(cur, cur.scope[c0].cls, 2)
            tmpn = n0 + "_new"
            if tmpn not in cur.names() and e is not None:
                t1 = g.derive(cur)
                cid = g.new_cid()
                t1.scope[cid] = ColInfo(cid, cur.scope[c0].cls, True, [], kind="ewise")
                t1.visible = list(cur.visible) + [(tmpn, cid)]
                g.stmts.append(dict(id=t1.tid, op="mutate", src=cur.tid, cols=[[tmpn, e]]))
                g.register(t1)
                t2 = g.derive(t1)
                t2.visible = [(n, c) for n, c in t1.visible if c != c0]
                g.stmts.append(dict(id=t2.tid, op="drop", src=t1.tid, cols=[n0]))
                g.register(t2)
                t3 = g.derive(t2)
                t3.visible = [((n0 if c == cid else n), c) for n, c in t2.visible]
                g.stmts.append(dict(id=t3.tid, op="rename", src=t2.tid, map=[[tmpn, n0]]))
                g.register(t3)
                g.features.add("union_hidden_same_label")
                cur = t3
    elif r.random() < 0.25 and len(cur.visible) > 2:
        # the same, with the hidden column *after* the visible one that takes its name:
        # drop(y) >> rename(x -> "y") >> mutate(x = …) for two columns x before y of one class
        vis = [(n, c) for n, c in cur.visible if c not in cur.keys and cur.scope[c].kind == "ewise" and not cur.scope[c].const]
        pairs = [(a, b) for i, a in enumerate(vis) for b in vis[i + 1:] if cur.scope[a[1]].cls == cur.scope[b[1]].cls]
        if pairs:
            (xn, xc), (yn, yc) = r.choice(pairs)
            e = g.ewise(cur, cur.scope[xc].cls, 2)
            if e is not None:
                t1 = g.derive(cur)
                t1.visible = [(n, c) for n, c in cur.visible if c != yc]
                g.stmts.append(dict(id=t1.tid, op="drop", src=cur.tid, cols=[yn]))
                g.register(t1)
                t2 = g.derive(t1)
                t2.visible = [((yn if c == xc else n), c) for n, c in t1.visible]
                g.stmts.append(dict(id=t2.tid, op="rename", src=t1.tid, map=[[xn, yn]]))
                g.register(t2)
                t3 = g.derive(t2)
                cid = g.new_cid()
                t3.scope[cid] = ColInfo(cid, cur.scope[xc].cls, True, [], kind="ewise")
                t3.visible = list(t2.visible) + [(xn, cid)]
                g.stmts.append(dict(id=t3.tid, op="mutate", src=t2.tid, cols=[[xn, e]]))
                g.register(t3)
                g.features.add("union_hidden_label_after")
                cur = t3
    # restore exactly the left's visible names (mutate may have added columns)
    want = left.names()
    have = dict((n, c) for n, c in cur.visible)
    if any(n not in have for n in want):
        return None
    if any(cur.scope[have[n]].cls != left.scope[dict(left.visible)[n]].cls for n in want):
        return None
    sel = list(want)
    if r.random() < 0.6:
        r.shuffle(sel)
        g.features.add("union_permuted")
    tvr = g.derive(cur)
    tvr.visible = [(n, have[n]) for n in sel]
    g.stmts.append(dict(id=tvr.tid, op="select", src=cur.tid, cols=sel))
    g.register(tvr)
    tv = g.derive(left)
    vis = set(left.vis_cids())
    # the columns of a union are ordinary columns of a new relation (the right side may hold other values in a
    # column that is constant on the left): they may serve as keys again
    tv.scope = {c: dataclasses.replace(i, const=False, kind="ewise", unique=False,
                                       nullable=i.nullable or tvr.scope[dict(tvr.visible)[n]].nullable)
                for n, c in left.visible for i in [left.scope[c]]}
    tv.sources = left.sources | tvr.sources
    tv.keys = []
    tv.order_total = False
    tv.limit = False
    tv.summarized = False
    distinct = r.random() < 0.4
    direct = r.random() < 0.5
    g.stmts.append(dict(id=tv.tid, op="union", src=left.tid, right=tvr.tid, distinct=distinct, direct=direct))
    if direct:
        g.features.add("union_direct_call")
    g.register(tv)
    g.features.add("union_distinct" if distinct else "union_all")
    return tv


PROFILES = {
    # verb weights per profile
    "general": dict(mutate=5, mutate_window=3, filter=4, select=2, drop=1, rename=2, arrange=3, slice=2, group_by=3, ungroup=1,
                    summarize=3, alias=2, alias_keep=1, join=2, union=1),
    "rowlevel": dict(mutate=6, filter=4, select=3, drop=2, rename=3, arrange=3, slice=3, group_by=1, ungroup=1, alias=1, alias_keep=1),
    "agg": dict(mutate=3, mutate_window=2, filter=3, select=1, rename=1, arrange=3, slice=2, group_by=5, ungroup=1, summarize=6, alias=2),
    "window": dict(mutate=2, mutate_window=6, filter=3, select=2, rename=1, arrange=3, slice=2, group_by=3, ungroup=2, alias=2),
    "join": dict(mutate=3, filter=3, select=2, rename=2, arrange=1, join=6, alias=2, union=2, mutate_window=1, summarize=1, group_by=1),
    # (no joins on the tall tables: a self-join on a duplicate-heavy key of 128 rows followed by another join makes ~10^6 pairs,
    #  which the list-based Lean evaluator does not finish in the time a check has)
    "tall": dict(mutate=5, mutate_window=2, filter=3, select=1, rename=1, arrange=2, slice=1, group_by=2, summarize=2, alias=1),
    "slices": dict(arrange=3, slice=7, filter=2, mutate=2, select=1, rename=1),
    "union": dict(mutate=3, filter=3, select=2, drop=1, rename=2, arrange=1, slice=1, union=6, alias=1, group_by=2, summarize=3, mutate_window=1),
    "subquery": dict(mutate=2, mutate_window=4, filter=4, arrange=2, slice=4, group_by=3, summarize=4, alias=4, join=2, union=1, ungroup=1),
}


def gen_program(seed: int, profile="general", n_verbs=None, max_rows=10, exports="last", _ret_gen=False, _weights=None) -> tuple[dict, dict]:
    g = Gen(seed, max_rows=max_rows, profile=profile)
    r = g.rng
    weights = _weights or PROFILES[profile]
    n_verbs = r.randint(2, 7) if n_verbs is None else n_verbs
    cur = g.add_source("src0")
    others = []
    verbs = list(weights)
    made = 0
    attempts = 0
    while made < n_verbs and attempts < n_verbs * 6:
        attempts += 1
        v = r.choices(verbs, [weights[k] for k in verbs])[0]
        nxt = None
        if v == "mutate":
            nxt = g.v_mutate(cur, "ewise")
        elif v == "mutate_window":
            nxt = g.v_mutate(cur, "window")
        elif v == "filter":
            nxt = g.v_filter(cur)
        elif v == "select":
            nxt = g.v_select(cur)
        elif v == "drop":
            nxt = g.v_drop(cur)
        elif v == "rename":
            nxt = g.v_rename(cur)
        elif v == "arrange":
            nxt = g.v_arrange(cur)
        elif v == "slice":
            if not cur.order_total and r.random() < 0.7:
                a = g.v_arrange(cur, total=True)
                if a is not None:
                    cur = a
                    made += 1
            nxt = g.v_slice(cur)
        elif v == "group_by":
            nxt = g.v_group_by(cur)
        elif v == "ungroup":
            nxt = g.v_ungroup(cur)
        elif v == "summarize":
            if not cur.group and r.random() < 0.6:
                gb = g.v_group_by(cur)
                if gb is not None:
                    cur = gb
                    made += 1
            nxt = g.v_summarize(cur)
        elif v == "alias":
            nxt = g.v_alias(cur)
        elif v == "alias_keep":
            nxt = g.v_alias(cur, keep=True)
        elif v == "join":
            if cur.group:
                continue
            if others and r.random() < 0.3:
                right = r.choice(others)
            elif r.random() < 0.35:
                right = g.v_alias(r.choice([t for t in g.tvs.values() if not t.group] or [cur]))
                g.features.add("self_join")
            else:
                right = g.add_source(f"src{len(g.tables)}")
                if r.random() < 0.5:
                    right = r.choice([g.v_filter, lambda t: g.v_mutate(t, "ewise"), g.v_select, g.v_rename])(right) or right
            if g.v_join(cur, right) is not None:
                nxt = _finish_join(g)
        elif v == "union":
            nxt = v_union(g, cur)
        if nxt is not None:
            if r.random() < 0.15:
                others.append(cur)
            cur = nxt
            made += 1
            if exports == "all":
                g.export(cur)
    if _ret_gen:
        return g, cur
    if exports in ("last", "all"):
        g.export(cur)
    p = g.program()
    meta = dict(features=sorted(g.features), ops=sorted(g.ops_used), verbs=[s["op"] for s in g.stmts], final=cur.tid)
    return p, meta


# ---------------------------------------------------------------------------------------------
# Scenario programs: skeletons aimed at mechanisms that random composition reaches rarely
# (hidden-name collisions across a join or a subquery, a summarize overwriting a grouping column).
# Data, column choice and the surrounding verbs are still drawn from the seed.
def _scenario(seed: int, kind: str):
    g = Gen(seed, max_rows=8, profile=kind)
    r = g.rng

    def table(name, cols, nrows=None):
        nrows = nrows if nrows is not None else r.choice([3, 5, 8])
        cs = [dict(name="id", dtype="int64", vals=g.shuffled(list(range(1, nrows + 1))))]
        for n, cls in cols:
            cs.append(dict(name=n, dtype={"int": "int64", "string": "string", "bool": "bool"}[cls],
                           vals=g.gen_values(cls, nrows, r.choice([0.0, 0.3]), dup_heavy=True)))
        g.tables.append(dict(name=name, cols=cs))
        tid = g.fresh_t()
        tv = TV(tid=tid, sources={tid}, nrows_hint=nrows)
        for c in cs:
            cid = g.new_cid()
            cls = {"int64": "int", "string": "string", "bool": "bool"}[c["dtype"]]
            tv.scope[cid] = ColInfo(cid, cls, c["name"] != "id", [(tid, c["name"])], unique=(c["name"] == "id"))
            tv.visible.append((c["name"], cid))
            if c["name"] == "id":
                tv.keys = [cid]
        g.stmts.append(dict(id=tid, op="source", table=name))
        g.tvs[tid] = tv
        return tv

    def S(**kw):
        g.stmts.append(kw)
        return kw["id"]

    if kind == "scen_join_hidden":
        a = table("src0", [("x", "int"), ("a", "int")])
        b = table("src1", [("x", "int"), ("b", "int")])
        hide = r.choice(["drop", "overwrite", "select"])
        l, rr = g.fresh_t(), g.fresh_t()
        if hide == "drop":
            S(id=l, op="drop", src=a.tid, cols=[{"col": [a.tid, "x"]}])
            S(id=rr, op="drop", src=b.tid, cols=["x"])
        elif hide == "select":
            S(id=l, op="select", src=a.tid, cols=["id", "a"])
            S(id=rr, op="select", src=b.tid, cols=[{"col": [b.tid, "id"]}, {"col": [b.tid, "b"]}])
        else:
            S(id=l, op="mutate", src=a.tid, cols=[["x", {"fn": "add", "args": [{"col": [a.tid, "a"]}, {"lit": 100}]}]])
            S(id=rr, op="mutate", src=b.tid, cols=[["x", {"fn": "sub", "args": [{"col": [b.tid, "b"]}, {"lit": 100}]}]])
        j = g.fresh_t()
        how = r.choice(["inner", "left", "inner"])
        on = [{"fn": "equal", "args": [{"col": [l, "id"]}, {"col": [rr, "id"]}]}]
        if r.random() < 0.3 and how != "full":
            on.append({"fn": "less_equal", "args": [{"col": [l, "a"]}, {"fn": "add", "args": [{"col": [rr, "b"]}, {"lit": 1000}]}]})
        S(id=j, op="join", src=l, right=rr, on=on, how=how)
        m = g.fresh_t()
        S(id=m, op="mutate", src=j, cols=[["p_left", {"col": [a.tid, "x"]}], ["p_right", {"col": [b.tid, "x"]}],
                                         ["p_sum", {"fn": "add", "args": [{"col": [b.tid, "x"]}, {"col": [a.tid, "x"]}]}]])
        f = g.fresh_t()
        S(id=f, op="arrange", src=m, by=[{"col": [a.tid, "id"]}])
        S(id="x1", op="export", src=f, target="polars", ordered=(how == "inner"))
    elif kind == "scen_subq_hidden":
        a = table("src0", [("a", "int"), ("b", "int"), ("s", "string")])
        t1, t2, t3, t4, t5, t6 = (g.fresh_t() for _ in range(6))
        S(id=t1, op="mutate", src=a.tid, cols=[["a", {"fn": "add", "args": [{"col": [a.tid, "a"]}, {"lit": 7}]}]])
        if r.random() < 0.5:
            S(id=t2, op="rename", src=t1, map=[["b", "bb"], ["s", "b"]])
        else:
            S(id=t2, op="mutate", src=t1, cols=[["b", {"fn": "neg", "args": [{"col": [a.tid, "b"]}]}]])
        S(id=t3, op="arrange", src=t2, by=[{"col": [a.tid, "id"]}])
        S(id=t4, op="slice_head", src=t3, n=r.choice([2, 3, 100]), offset=r.choice([0, 1]))
        S(id=t5, op="alias", src=t4, keep_col_refs=True)
        S(id=t6, op="filter", src=t5, preds=[{"fn": "greater_than", "args": [{"col": [a.tid, "id"]}, {"lit": 0}]}])
        t7 = g.fresh_t()
        S(id=t7, op="mutate", src=t6, cols=[["old_a", {"col": [a.tid, "a"]}], ["new_a", {"c": "a"}], ["old_b", {"col": [a.tid, "b"]}]])
        last = t7
        if r.random() < 0.5:
            # overwrite the overwritten name once more above the subquery (the visible column must be the one replaced: D67)
            last = g.fresh_t()
            S(id=last, op="mutate", src=t7, cols=[["a", {"fn": "add", "args": [{"col": [a.tid, "a"]}, {"lit": 100}]}], ["a_seen", {"c": "a"}]])
        S(id="x1", op="export", src=last, target="polars", ordered=True)
    elif kind == "scen_summarize_key":
        a = table("src0", [("a", "int"), ("b", "string"), ("x", "int")])
        t1, t2 = g.fresh_t(), g.fresh_t()
        keys = r.choice([["a", "b"], ["b", "a"], ["a"]])
        if len(keys) == 2 and r.random() < 0.5:
            # the grouping is built up in two steps: the keys keep the order in which they were added
            t0 = g.fresh_t()
            S(id=t0, op="group_by", src=a.tid, cols=[{"col": [a.tid, keys[0]]}])
            S(id=t1, op="group_by", src=t0, cols=[{"col": [a.tid, keys[1]]}], add=True)
        else:
            S(id=t1, op="group_by", src=a.tid, cols=[{"col": [a.tid, k]} for k in keys])
        ow = r.choice(keys + ["s_new"])      # the aggregate takes the name of a key (which then leaves the result) or a fresh name
        cols = [[ow, {"fn": "sum", "args": [{"col": [a.tid, "x"]}]}], ["n", {"fn": "count_star", "args": []}]]
        if r.random() < 0.5:
            cols.reverse()
        S(id=t2, op="summarize", src=t1, cols=cols)
        S(id="x1", op="export", src=t2, target="polars", ordered=False)
    elif kind == "scen_window_nulls":
        # partitioned window functions ordered by a *descending* key with an explicit nulls marker, over a key column
        # that really holds nulls (the marker combination the Polars backend has to emulate inside over())
        nrows = r.choice([5, 8, 10])
        a = table("src0", [("g", "int"), ("k", "int"), ("v", "int")], nrows=nrows)
        t0 = g.tables[-1]
        kcol = next(c for c in t0["cols"] if c["name"] == "k")
        gcol = next(c for c in t0["cols"] if c["name"] == "g")
        kcol["vals"] = [None if (i % 3 == 0 or r.random() < 0.2) else r.choice([1, 2, 2, 3, 7, -1]) for i in range(nrows)]
        gcol["vals"] = [r.choice([1, 1, 2]) for _ in range(nrows)]
        key = {"col": [a.tid, "k"]}
        nm = r.choice(["nulls_last", "nulls_first"])
        if r.random() < 0.8:
            if r.random() < 0.5:
                key = {"fn": nm, "args": [{"fn": "descending", "args": [key]}]}
            else:
                key = {"fn": "descending", "args": [{"fn": nm, "args": [key]}]}
        else:
            key = {"fn": nm, "args": [key]}
        arr = [key, {"col": [a.tid, "id"]}]
        part = [{"col": [a.tid, "g"]}]
        fn = r.choice(["row_number", "rank", "dense_rank", "shift", "cum_sum"])
        if fn in ("row_number", "rank", "dense_rank"):
            e = {"fn": fn, "args": [], "arrange": arr if fn == "row_number" else [key], "partition_by": part}
        elif fn == "shift":
            e = {"fn": "shift", "args": [{"col": [a.tid, "v"]}, {"lit": r.choice([1, -1])}, {"lit": None}], "arrange": arr, "partition_by": part}
        else:
            e = {"fn": "cum_sum", "args": [{"col": [a.tid, "v"]}], "arrange": arr, "partition_by": part}
        src = a.tid
        if r.random() < 0.4:
            gb = g.fresh_t()
            S(id=gb, op="group_by", src=a.tid, cols=[{"col": [a.tid, "g"]}])
            e = {k2: v2 for k2, v2 in e.items() if k2 != "partition_by"}
            src = gb
        m = g.fresh_t()
        S(id=m, op="mutate", src=src, cols=[["w", e]])
        last = m
        if src != a.tid:
            last = g.fresh_t()
            S(id=last, op="ungroup", src=m)
        S(id="x1", op="export", src=last, target="polars", ordered=False)
    elif kind == "scen_join_suffix":
        # automatic suffixing: a non-key name clashes (so every right column gets the suffix) and the suffixed
        # name of a right column already exists on the left, possibly for several counters
        rname = "src1"
        taken = r.randint(1, 3)
        lcols = [("a", "int"), ("b_" + rname, "int")] + [("b_%s_%d" % (rname, i), "int") for i in range(1, taken)]
        if r.random() < 0.5:
            lcols.append(("a_" + rname, "string"))
        a = table("src0", lcols)
        b = table(rname, [("a", "int"), ("b", "int")] + ([("c", "string")] if r.random() < 0.5 else []))
        j = g.fresh_t()
        right = b.tid
        rkey = "id"
        if r.random() < 0.15:
            # a user-provided suffix: *every* right column gets it, so a right column whose own name is free can still collide
            # (`y` + `_x` = the left column `y_x`): the join must be refused with ValueError
            g.stmts[:] = [s_ for s_ in g.stmts if s_["id"] not in (a.tid, b.tid)]
            g.tables[:] = []
            a = table("src0", [("a", "int"), ("y_x", "int")])
            b = table(rname, [("k", "int"), ("y", "int")])
            r0 = g.fresh_t()
            S(id=r0, op="rename", src=b.tid, map=[["id", "rid"]])
            S(id=j, op="join", src=a.tid, right=r0, on=[{"fn": "equal", "args": [{"col": [a.tid, "id"]}, {"col": [b.tid, "k"]}]}],
              how=r.choice(["inner", "left"]), suffix="_x")
            S(id="x1", op="export", src=j, target="polars", ordered=False)
            p = g.program()
            return p, dict(features=[kind, "join_user_suffix_collision"], ops=[], verbs=[s_["op"] for s_ in g.stmts], final="x1")
        if r.random() < 0.4:
            # the join key of the right side got its name by a rename (its creation name differs): only the clashing
            # names are suffixed when nothing but join columns clashes - decided on the *current* names
            lcols2 = [("a", "int")]
            g.stmts[:] = [s_ for s_ in g.stmts if s_["id"] not in (a.tid, b.tid)]
            g.tables[:] = []
            a = table("src0", lcols2)
            b = table(rname, [("k", "int"), ("y", "int")])
            right = g.fresh_t()
            S(id=right, op="rename", src=b.tid, map=[["id", "rid"], ["k", "id"]])
            on = [{"fn": "equal", "args": [{"col": [a.tid, "id"]}, {"col": [b.tid, "k"]}]}]
            S(id=j, op="join", src=a.tid, right=right, on=on, how=r.choice(["inner", "left", "inner"]))
            m = g.fresh_t()
            S(id=m, op="mutate", src=j, cols=[["p_left", {"col": [a.tid, "a"]}], ["p_right", {"col": [b.tid, "y"]}], ["p_key", {"col": [b.tid, "k"]}]])
            f = g.fresh_t()
            S(id=f, op="arrange", src=m, by=[{"col": [a.tid, "id"]}, {"col": [b.tid, "id"]}])
            S(id="x1", op="export", src=f, target="polars", ordered=True)
            p = g.program()
            return p, dict(features=[kind, "join_key_renamed"], ops=[], verbs=[s_["op"] for s_ in g.stmts], final="x1")
        on = [{"fn": "equal", "args": [{"col": [a.tid, "id"]}, {"col": [b.tid, "id"]}]}]
        S(id=j, op="join", src=a.tid, right=b.tid, on=on, how=r.choice(["inner", "left", "inner"]))
        m = g.fresh_t()
        S(id=m, op="mutate", src=j, cols=[["p_left", {"col": [a.tid, "b_" + rname]}], ["p_right", {"col": [b.tid, "b"]}]])
        f = g.fresh_t()
        S(id=f, op="arrange", src=m, by=[{"col": [a.tid, "id"]}])
        S(id="x1", op="export", src=f, target="polars", ordered=True)
    elif kind == "scen_rename_hidden":
        # labels are not unique below the surface: a hidden column keeps its label.  A visible column takes over the
        # name of a hidden one that sits later (or earlier) in the table and is then renamed / overwritten / used again
        cols = [("a", "int"), ("b", "int"), ("c", "string"), ("d", "int")]
        a = table("src0", cols)
        names = [n for n, _ in cols]
        i1, i2 = sorted(r.sample(range(len(names)), 2))
        first, later = names[i1], names[i2]
        if r.random() < 0.3:
            first, later = later, first
        t1, t2, t3 = g.fresh_t(), g.fresh_t(), g.fresh_t()
        if r.random() < 0.5:
            S(id=t1, op="drop", src=a.tid, cols=[{"col": [a.tid, later]}])
        else:
            S(id=t1, op="select", src=a.tid, cols=[{"col": [a.tid, n]} for n in ["id"] + names if n != later])
        S(id=t2, op="rename", src=t1, map=[[first, later]])
        step = r.choice(["rename", "rename", "mutate_new", "mutate_over", "filter"])
        if step == "rename":
            S(id=t3, op="rename", src=t2, map=[[later, "key"]])
        elif step == "mutate_new":
            S(id=t3, op="mutate", src=t2, cols=[["seen", {"c": later}], ["orig", {"col": [a.tid, first]}]])
        elif step == "mutate_over":
            S(id=t3, op="mutate", src=t2, cols=[[later, {"fn": "add", "args": [{"col": [a.tid, "id"]}, {"lit": 100}]}]])
        else:
            S(id=t3, op="filter", src=t2, preds=[{"fn": "is_not_null", "args": [{"c": later}]}])
        last = t3
        if r.random() < 0.5:
            last = g.fresh_t()
            S(id=last, op="mutate", src=t3, cols=[["hid", {"col": [a.tid, later]}]])
        f = g.fresh_t()
        S(id=f, op="arrange", src=last, by=[{"col": [a.tid, "id"]}])
        S(id="x1", op="export", src=f, target="polars", ordered=True)
    elif kind == "scen_union_const":
        # a column that is constant (or an aggregate) on the left side of a union and an ordinary column on the right:
        # after the union it is an ordinary column (D73) - group by it, filter on it, compute with it
        a = table("src0", [("a", "int"), ("b", "int")])
        b = table("src1", [("a", "int"), ("b", "int")])
        l1, r1, u = g.fresh_t(), g.fresh_t(), g.fresh_t()
        variant = r.choice(["const", "const", "agg"])
        if variant == "const":
            S(id=l1, op="mutate", src=a.tid, cols=[["k", {"lit": r.choice([1, 2, 7])}]])
            S(id=r1, op="mutate", src=b.tid, cols=[["k", {"col": [b.tid, "b"]}]])
            lsel, rsel = ["k", "a"], ["k", "a"]
        else:
            g1 = g.fresh_t()
            S(id=g1, op="group_by", src=a.tid, cols=[{"col": [a.tid, "b"]}])
            S(id=l1, op="summarize", src=g1, cols=[["k", {"fn": "max", "args": [{"col": [a.tid, "a"]}]}]])
            S(id=r1, op="mutate", src=b.tid, cols=[["k", {"col": [b.tid, "a"]}]])
            lsel, rsel = ["b", "k"], ["b", "k"]
        l2, r2 = g.fresh_t(), g.fresh_t()
        if r.random() < 0.5:
            rsel = list(reversed(rsel))
        S(id=l2, op="select", src=l1, cols=lsel)
        S(id=r2, op="select", src=r1, cols=rsel)
        S(id=u, op="union", src=l2, right=r2, distinct=r.random() < 0.3)
        after = r.choice(["group", "group", "filter", "mutate", "group_expr"])
        last = g.fresh_t()
        other = "a" if variant == "const" else "b"
        # the column named by the reference the user still holds from *before* the union (D85), by the union's own, or by name
        kref = r.choice([{"c": "k"}, {"col": [l1, "k"]}, {"col": [u, "k"]}])
        if after == "group_expr":
            # … and an *expression* over the pre-union reference (its type was computed when it was built)
            mz, gb = g.fresh_t(), g.fresh_t()
            inner = r.choice([{"fn": "add", "args": [{"col": [l1, "k"]}, {"lit": 1}]}, {"cast": {"col": [l1, "k"]}, "to": "int64"},
                              {"case": [[{"fn": "greater_than", "args": [{"col": [l1, "k"]}, {"lit": 100}]}, {"lit": 0}]], "default": {"col": [l1, "k"]}}])
            S(id=mz, op="mutate", src=u, cols=[["z", inner]])
            S(id=gb, op="group_by", src=mz, cols=[{"c": "z"}])
            S(id=last, op="summarize", src=gb, cols=[["s", {"fn": "sum", "args": [{"c": other}]}], ["n", {"fn": "count_star", "args": []}]])
        elif after == "group":
            gb = g.fresh_t()
            S(id=gb, op="group_by", src=u, cols=[kref])
            S(id=last, op="summarize", src=gb, cols=[["s", {"fn": "sum", "args": [{"c": other}]}], ["n", {"fn": "count_star", "args": []}]])
        elif after == "filter":
            S(id=last, op="filter", src=u, preds=[{"fn": "greater_than", "args": [kref, {"lit": 1}]}])
        else:
            S(id=last, op="mutate", src=u, cols=[["w", {"fn": "sum", "args": [{"c": other}], "partition_by": [kref]}]])
        S(id="x1", op="export", src=last, target="polars", ordered=False)
    elif kind == "scen_union_distinct":
        # `distinct=True` removes duplicates over the whole visible row, whatever later verbs still use: rows that agree on the
        # columns kept later and differ on another one must survive (D80: a subquery below the union was pruned).  The tables
        # have no unique column, and no verb between the subquery and the union mentions the columns.
        def plain(name, nrows):
            cs = [dict(name="a", dtype="int64", vals=[r.choice([1, 1, 2, None]) for _ in range(nrows)]),
                  dict(name="b", dtype="int64", vals=[r.choice([1, 2, 3]) for _ in range(nrows)])]
            g.tables.append(dict(name=name, cols=cs))
            tid = g.fresh_t()
            g.stmts.append(dict(id=tid, op="source", table=name))
            return tid

        n = r.choice([4, 6, 8])
        ta, tb = plain("src0", n), plain("src1", r.choice([2, 3, 4]))
        left, right = ta, tb
        wrap = r.choice(["none", "left", "left", "right_filter", "left_filter"])
        if wrap == "left":
            t1, t2, t3 = g.fresh_t(), g.fresh_t(), g.fresh_t()
            S(id=t1, op="arrange", src=ta, by=[{"col": [ta, "a"]}, {"col": [ta, "b"]}])
            S(id=t2, op="slice_head", src=t1, n=100, offset=0)
            S(id=t3, op="alias", src=t2)
            left = t3
        elif wrap == "right_filter":
            t1 = g.fresh_t()
            S(id=t1, op="filter", src=tb, preds=[{"fn": "greater_than", "args": [{"col": [tb, "b"]}, {"lit": 0}]}])
            right = t1
        elif wrap == "left_filter":
            t1, t2, t3 = g.fresh_t(), g.fresh_t(), g.fresh_t()
            S(id=t1, op="mutate", src=ta, cols=[["w", {"fn": "row_number", "args": [], "arrange": [{"col": [ta, "a"]}, {"col": [ta, "b"]}]}]])
            S(id=t2, op="alias", src=t1)
            S(id=t3, op="filter", src=t2, preds=[{"fn": "greater_than", "args": [{"c": "w"}, {"lit": 0}]}])
            left = g.fresh_t()
            S(id=left, op="drop", src=t3, cols=["w"])
        u = g.fresh_t()
        if r.random() < 0.4:
            r2 = g.fresh_t()
            S(id=r2, op="select", src=right, cols=["b", "a"])
            right = r2
        S(id=u, op="union", src=left, right=right, distinct=True, direct=r.random() < 0.5)
        last = g.fresh_t()
        after = r.choice(["select", "select", "count", "mutate_over", "group"])
        if after == "select":
            S(id=last, op="select", src=u, cols=[r.choice(["a", "b"])])
        elif after == "count":
            S(id=last, op="summarize", src=u, cols=[["n", {"fn": "count_star", "args": []}]])
        elif after == "mutate_over":
            S(id=last, op="mutate", src=u, cols=[["b", {"lit": 0}]])
        else:
            gb = g.fresh_t()
            S(id=gb, op="group_by", src=u, cols=[{"c": "a"}])
            S(id=last, op="summarize", src=gb, cols=[["n", {"fn": "count_star", "args": []}]])
        S(id="x1", op="export", src=last, target="polars", ordered=False)
    elif kind == "scen_const_key":
        # a constant column among the grouping keys (next to an ordinary key, on non-empty data): SQL must not render the
        # constant into GROUP BY (an integer there is a select-list position)
        a = table("src0", [("g", "int"), ("x", "int")], nrows=r.choice([4, 6]))
        v = r.choice([-1, 0, 3, 2024, True, False, "k", 1.5])
        t1, t2, t3 = g.fresh_t(), g.fresh_t(), g.fresh_t()
        S(id=t1, op="mutate", src=a.tid, cols=[["c", {"lit": v}]])
        keys = [{"col": [a.tid, "g"]}, {"c": "c"}]
        if r.random() < 0.5:
            keys.reverse()
        S(id=t2, op="group_by", src=t1, cols=keys)
        S(id=t3, op="summarize", src=t2, cols=[["s", {"fn": "sum", "args": [{"col": [a.tid, "x"]}]}], ["n", {"fn": "count_star", "args": []}]])
        S(id="x1", op="export", src=t3, target="polars", ordered=False)
    elif kind == "scen_join_all":
        # the join condition as one conjunction of three or four predicates: pdt.all(p1, p2, p3, …) or p1 & p2 & p3 -
        # every one of them restricts the pairs
        n = r.choice([5, 6, 8])
        a = table("src0", [("k", "int"), ("x", "int")], nrows=n)
        b = table("src1", [("k", "int"), ("y", "int")], nrows=n)
        for tb in g.tables[-2:]:
            for c in tb["cols"]:
                if c["name"] == "k":
                    c["vals"] = [r.choice([1, 1, 2, None]) for _ in c["vals"]]
                elif c["name"] in ("x", "y"):
                    c["vals"] = [r.choice([0, 1, 2, 3, None]) for _ in c["vals"]]
        L = lambda n_: {"col": [a.tid, n_]}      # noqa: E731
        R = lambda n_: {"col": [b.tid, n_]}      # noqa: E731
        preds = [{"fn": "equal", "args": [L("k"), R("k")]}, {"fn": "less_equal", "args": [L("x"), R("y")]},
                 {"fn": "not_equal", "args": [L("id"), R("id")]}]
        if r.random() < 0.5:
            preds.append({"fn": "greater_than", "args": [R("y"), {"lit": 0}]})
        r.shuffle(preds)
        if r.random() < 0.6:
            on = [{"fn": "horizontal_all", "args": preds}]
        elif r.random() < 0.5:
            conj = preds[0]
            for p_ in preds[1:]:
                conj = {"fn": "bool_and", "args": [conj, p_]}
            on = [conj]
        else:
            on = [{"fn": "horizontal_all", "args": preds[:2]}, {"fn": "bool_and", "args": preds[2:4]} if len(preds) == 4 else preds[2]]
        j, f = g.fresh_t(), g.fresh_t()
        S(id=j, op="join", src=a.tid, right=b.tid, on=on, how=r.choice(["inner", "inner", "left"]))
        S(id=f, op="arrange", src=j, by=[{"col": [a.tid, "id"]}, {"col": [b.tid, "id"]}])
        S(id="x1", op="export", src=f, target="polars", ordered=False)
    elif kind == "scen_subq_group":
        # the grouping state crosses a forced subquery and the grouping key is not mentioned by any later verb and not part of
        # the final selection: the subquery must still hand it on (D66)
        a = table("src0", [("g", "int"), ("x", "int")], nrows=r.choice([5, 6, 8]))
        gcol = next(c for c in g.tables[-1]["cols"] if c["name"] == "g")
        gcol["vals"] = [r.choice([1, 1, 2, 3, None]) for _ in gcol["vals"]]
        t1, t2, t3, t4, t5, t6 = (g.fresh_t() for _ in range(6))
        S(id=t1, op="group_by", src=a.tid, cols=[{"col": [a.tid, "g"]}])
        S(id=t2, op="mutate", src=t1, cols=[["w", {"fn": "row_number", "args": [], "arrange": [{"col": [a.tid, "id"]}]}]])
        S(id=t3, op="alias", src=t2, keep_col_refs=r.random() < 0.5)
        S(id=t4, op="filter", src=t3, preds=[{"fn": "greater_equal", "args": [{"c": "w"}, {"lit": r.choice([1, 2])}]}])
        S(id=t5, op="summarize", src=t4, cols=[["s", {"fn": "sum", "args": [{"c": "x"}]}], ["n", {"fn": "count_star", "args": []}]])
        S(id=t6, op=r.choice(["select", "drop"]), src=t5, cols=["s", "n"] if g.stmts is None else ["s", "n"])
        if g.stmts[-1]["op"] == "drop":
            g.stmts[-1]["cols"] = ["g"]
        S(id="x1", op="export", src=t6, target="polars", ordered=False)
    elif kind == "scen_union_agg_right":
        # the right operand of a union is itself an aggregate below a subquery and a join, listed in another column order than
        # the left one (the SQL compiler re-reads that operand to re-select it)
        a = table("src0", [("g", "int"), ("x", "int")], nrows=r.choice([3, 5]))
        b = table("src1", [("g", "int"), ("x", "int")], nrows=r.choice([4, 6]))
        c = table("src2", [("h", "int")], nrows=3)
        for tb in g.tables[-3:]:
            for col in tb["cols"]:
                if col["name"] == "g":
                    col["vals"] = [r.choice([1, 2, 3]) for _ in col["vals"]]
        l1, r1, r2, r3, r4, r5, u = (g.fresh_t() for _ in range(7))
        S(id=l1, op="select", src=a.tid, cols=["g", "x"])
        S(id=r1, op="group_by", src=b.tid, cols=[{"col": [b.tid, "g"]}])
        S(id=r2, op="summarize", src=r1, cols=[["x", {"fn": "sum", "args": [{"col": [b.tid, "x"]}]}]])
        S(id=r3, op="alias", src=r2)
        S(id=r4, op="join", src=r3, right=c.tid, on=[{"fn": "equal", "args": [{"col": [r3, "g"]}, {"col": [c.tid, "id"]}]}], how="inner")
        S(id=r5, op="select", src=r4, cols=r.choice([["x", "g"], ["g", "x"]]))
        S(id=u, op="union", src=l1, right=r5, distinct=r.random() < 0.3)
        S(id="x1", op="export", src=u, target="polars", ordered=False)
    elif kind == "scen_selfjoin_agg":
        # "join the aggregate back": a table joined with a summary of itself (through alias()); verbs after
        # the join use columns of the origin that the summary dropped
        a = table("src0", [("a", "int"), ("b", "int"), ("s", "string")])
        g1, s1, al, j, m = (g.fresh_t() for _ in range(5))
        key = r.choice(["a", "s"])
        left = a.tid
        if r.random() < 0.4:
            left = g.fresh_t()
            S(id=left, op=r.choice(["filter", "mutate"]), src=a.tid,
              **(dict(preds=[{"fn": "is_not_null", "args": [{"col": [a.tid, "id"]}]}]) if g.stmts is None else {}))
            g.stmts[-1].update(dict(preds=[{"fn": "greater_than", "args": [{"col": [a.tid, "id"]}, {"lit": 0}]}]) if g.stmts[-1]["op"] == "filter"
                               else dict(cols=[["w0", {"fn": "add", "args": [{"col": [a.tid, "b"]}, {"lit": 1}]}]]))
        S(id=g1, op="group_by", src=a.tid, cols=[{"col": [a.tid, key]}])
        agg = r.choice(["max", "min", "sum"])
        S(id=s1, op="summarize", src=g1, cols=[["m", {"fn": agg, "args": [{"col": [a.tid, "b"]}]}], ["n", {"fn": "count_star", "args": []}]])
        S(id=al, op="alias", src=s1, **({"name": "agg"} if r.random() < 0.5 else {}))
        how = r.choice(["inner", "left", "inner"])
        S(id=j, op="join", src=left, right=al, on=[{"fn": "equal", "args": [{"col": [a.tid, key]}, {"col": [al, key]}]}], how=how)
        S(id=m, op="mutate", src=j, cols=[["d", {"fn": "sub", "args": [{"col": [al, "m"]}, {"col": [a.tid, "b"]}]}],
                                         ["b2", {"col": [a.tid, "b"]}], ["n2", {"col": [al, "n"]}]])
        f = g.fresh_t()
        S(id=f, op="arrange", src=m, by=[{"col": [a.tid, "id"]}])
        S(id="x1", op="export", src=f, target="polars", ordered=True)
    elif kind == "scen_having_chain":
        # several separate `filter` verbs after a grouped summarize: every one of them acts on the aggregated rows (HAVING is a conjunction)
        a = table("src0", [("g", "int"), ("x", "int"), ("y", "int")], nrows=r.choice([6, 8, 10]))
        gb, sm = g.fresh_t(), g.fresh_t()
        S(id=gb, op="group_by", src=a.tid, cols=[{"col": [a.tid, "g"]}])
        S(id=sm, op="summarize", src=gb, cols=[["s", {"fn": "sum", "args": [{"col": [a.tid, "x"]}]}], ["n", {"fn": "count_star", "args": []}],
                                              ["m", {"fn": "max", "args": [{"col": [a.tid, "y"]}]}]])
        preds = [{"fn": "greater_equal", "args": [{"c": "n"}, {"lit": r.choice([1, 2])}]},
                 {"fn": "greater_than", "args": [{"c": "s"}, {"lit": r.choice([-5, 0, 3])}]},
                 {"fn": "is_not_null", "args": [{"c": "g"}]},
                 {"fn": "less_than", "args": [{"c": "m"}, {"lit": r.choice([5, 50])}]}]
        r.shuffle(preds)
        cur = sm
        for p_ in preds[:r.randint(2, 4)]:
            nxt = g.fresh_t()
            S(id=nxt, op="filter", src=cur, preds=[p_])
            cur = nxt
        S(id="x1", op="export", src=cur, target="polars", ordered=False)
    elif kind == "scen_subq_count":
        # a verb compiled through an alias() subquery that mentions *no* column of the subquery: the inner SELECT still needs a column
        a = table("src0", [("g", "int"), ("x", "int")], nrows=r.choice([4, 6, 9]))
        cur = a.tid
        first = r.choice(["slice", "summarize", "window_filter"])
        if first == "slice":
            ar, sl = g.fresh_t(), g.fresh_t()
            S(id=ar, op="arrange", src=cur, by=[{"col": [a.tid, "id"]}])
            S(id=sl, op="slice_head", src=ar, n=r.choice([2, 3]), offset=r.choice([0, 1]))
            cur = sl
        elif first == "summarize":
            gb, sm = g.fresh_t(), g.fresh_t()
            S(id=gb, op="group_by", src=cur, cols=[{"col": [a.tid, "g"]}])
            S(id=sm, op="summarize", src=gb, cols=[["s", {"fn": "sum", "args": [{"col": [a.tid, "x"]}]}]])
            cur = sm
        else:
            mt = g.fresh_t()
            S(id=mt, op="mutate", src=cur, cols=[["rn", {"fn": "row_number", "args": [], "arrange": [{"col": [a.tid, "id"]}]}]])
            cur = mt
        al, sm2 = g.fresh_t(), g.fresh_t()
        S(id=al, op="alias", src=cur)
        S(id=sm2, op="summarize", src=al, cols=[["n", {"fn": "count_star", "args": []}]] + ([["one", {"lit": 1}]] if r.random() < 0.3 else []))
        S(id="x1", op="export", src=sm2, target="polars", ordered=False)
    elif kind == "scen_alias_below_limit":
        # an alias() *below* a slice_head, then a verb that cannot share the SELECT with the LIMIT: the alias is of no help (the
        # subquery would have to be above the LIMIT), so SQL either raises SubqueryError or gives what Polars gives
        a = table("src0", [("a", "int"), ("b", "int")], nrows=r.choice([5, 7, 9]))
        cur = a.tid
        if r.random() < 0.5:
            nxt = g.fresh_t()
            S(id=nxt, op="mutate", src=cur, cols=[["w", {"fn": "add", "args": [{"col": [a.tid, "a"]}, {"lit": 1}]}]])
            cur = nxt
        al, ar, sl, last = g.fresh_t(), g.fresh_t(), g.fresh_t(), g.fresh_t()
        if r.random() < 0.5:
            # the order is fixed before the alias: the slice_head is the only verb between the alias and the offending verb
            S(id=ar, op="arrange", src=cur, by=[{"col": [a.tid, "id"]}])
            S(id=al, op="alias", src=ar)
            S(id=sl, op="slice_head", src=al, n=r.choice([2, 3]), offset=r.choice([0, 1]))
        else:
            S(id=al, op="alias", src=cur)
            S(id=ar, op="arrange", src=al, by=[{"col": [al, "id"]}])
            S(id=sl, op="slice_head", src=ar, n=r.choice([2, 3]), offset=r.choice([0, 1]))
        cur = sl
        for _ in range(r.choice([0, 0, 1])):
            nxt = g.fresh_t()
            S(id=nxt, op="select", src=cur, cols=["id", "a", "b"])
            cur = nxt
        what = r.choice(["filter", "filter", "arrange", "summarize", "window"])
        if what == "filter":
            S(id=last, op="filter", src=cur, preds=[{"fn": "greater_than", "args": [{"col": [al, "a"]}, {"lit": r.choice([0, 1, 2])}]}])
        elif what == "arrange":
            S(id=last, op="arrange", src=cur, by=[{"fn": "descending", "args": [{"col": [al, "b"]}]}, {"col": [al, "id"]}])
        elif what == "summarize":
            S(id=last, op="summarize", src=cur, cols=[["s", {"fn": "sum", "args": [{"col": [al, "a"]}]}], ["n", {"fn": "count_star", "args": []}]])
        else:
            S(id=last, op="mutate", src=cur, cols=[["rn", {"fn": "row_number", "args": [], "arrange": [{"col": [al, "id"]}]}]])
        S(id="x1", op="export", src=last, target="polars", ordered=(what == "arrange"))
    elif kind == "scen_odd_names":
        # legal column names that are not python identifiers: blanks, dashes, leading digits, keywords - from the source, from rename,
        # from mutate / summarize keyword dictionaries
        a = table("src0", [("unit price", "int"), ("2024", "int"), ("net-total", "int"), ("class", "string")], nrows=r.choice([3, 5]))
        cur = a.tid
        steps = r.sample(["rename", "mutate", "select", "filter", "summarize"], r.randint(1, 3))
        for stp in steps:
            nxt = g.fresh_t()
            if stp == "rename":
                S(id=nxt, op="rename", src=cur, map=[["2024", r.choice(["year 24", "y-24", "24"])]])
                cur = nxt
                break
            if stp == "mutate":
                S(id=nxt, op="mutate", src=cur, cols=[[r.choice(["a b", "1st", "x-y", "lambda"]), {"fn": "add", "args": [{"col": [a.tid, "unit price"]}, {"lit": 1}]}]])
            elif stp == "select":
                S(id=nxt, op="select", src=cur, cols=["id", "net-total", "unit price"])
                cur = nxt
                break
            elif stp == "filter":
                S(id=nxt, op="filter", src=cur, preds=[{"fn": "is_not_null", "args": [{"col": [a.tid, "net-total"]}]}])
            else:
                gb = g.fresh_t()
                S(id=gb, op="group_by", src=cur, cols=[{"col": [a.tid, "class"]}])
                S(id=nxt, op="summarize", src=gb, cols=[["sum of totals", {"fn": "sum", "args": [{"col": [a.tid, "net-total"]}]}], ["n-rows", {"fn": "count_star", "args": []}]])
                cur = nxt
                break
            cur = nxt
        S(id="x1", op="export", src=cur, target="polars", ordered=False)
    elif kind == "scen_cross_empty":
        # cross_join returns the full product - the empty one when a side is empty or filtered to nothing
        a = table("src0", [("a", "int")], nrows=r.choice([2, 4]))
        b = table("src1", [("b", "int")], nrows=r.choice([0, 3]) if r.random() < 0.5 else 3)
        right = b.tid
        if r.random() < 0.6:
            right = g.fresh_t()
            S(id=right, op="filter", src=b.tid, preds=[{"fn": "greater_than", "args": [{"col": [b.tid, "id"]}, {"lit": r.choice([100, 1])}]}])
        cj, last = g.fresh_t(), g.fresh_t()
        S(id=cj, op="cross_join", src=a.tid, right=right, suffix="_r")
        S(id=last, op="mutate", src=cj, cols=[["z", {"fn": "add", "args": [{"col": [a.tid, "a"]}, {"lit": 1}]}]])
        S(id="x1", op="export", src=last, target="polars", ordered=False)
    elif kind == "scen_hidden_window_group":
        # the grouping column is a *window* column that a select has hidden; `alias()` directly before the next window function
        # makes it acceptable (the implicit partition_by carries the hidden column through the subquery)
        a = table("src0", [("g", "int"), ("x", "int")], nrows=r.choice([5, 7]))
        m1, gb, sl, al, m2, ug = (g.fresh_t() for _ in range(6))
        S(id=m1, op="mutate", src=a.tid, cols=[["w", {"fn": "dense_rank", "args": [], "arrange": [{"col": [a.tid, "g"]}]}]])
        variant = r.choice(["group_hidden", "filter_keep_refs", "group_visible"])
        if variant == "filter_keep_refs":
            S(id=sl, op="select", src=m1, cols=["id", "g", "x"])
            S(id=al, op="alias", src=sl, keep_col_refs=True)
            S(id=m2, op="filter", src=al, preds=[{"fn": "greater_than", "args": [{"col": [m1, "w"]}, {"lit": 1}]}])
            S(id="x1", op="export", src=m2, target="polars", ordered=False)
        else:
            S(id=gb, op="group_by", src=m1, cols=[{"col": [m1, "w"]}])
            cur = gb
            if variant == "group_hidden":
                S(id=sl, op="select", src=gb, cols=["id", "g", "x"])
                cur = sl
            S(id=al, op="alias", src=cur)
            S(id=m2, op="mutate", src=al, cols=[["s", {"fn": "sum", "args": [{"col": [al, "x"]}]}], ["rn", {"fn": "row_number", "args": [], "arrange": [{"col": [al, "id"]}]}]])
            S(id=ug, op="ungroup", src=m2)
            S(id="x1", op="export", src=ug, target="polars", ordered=False)
    elif kind == "scen_window_cast_join":
        # a cast (or a case expression, or arithmetic) around a window function is still a window column: the join / filter after it
        # needs the alias() to become a subquery
        a = table("src0", [("a", "int"), ("x", "int")], nrows=r.choice([4, 6]))
        b = table("src1", [("k", "int"), ("y", "int")], nrows=r.choice([3, 5]))
        w = {"fn": "shift", "args": [{"col": [a.tid, "x"]}, {"lit": 1}, {"lit": None}], "arrange": [{"col": [a.tid, "id"]}]}
        wrapped = r.choice([{"cast": w, "to": "float64"}, {"case": [[{"fn": "is_null", "args": [w]}, {"lit": -1}]], "default": w},
                            {"fn": "add", "args": [{"cast": w, "to": "float64"}, {"lit": 0.5}]}])
        m1, al, last = g.fresh_t(), g.fresh_t(), g.fresh_t()
        S(id=m1, op="mutate", src=a.tid, cols=[["prev", wrapped]])
        S(id=al, op="alias", src=m1)
        if r.random() < 0.6:
            S(id=last, op="join", src=al, right=b.tid, on=[{"fn": "equal", "args": [{"col": [al, "id"]}, {"col": [b.tid, "id"]}]}], how=r.choice(["inner", "left"]))
        else:
            S(id=last, op="filter", src=al, preds=[{"fn": "is_not_null", "args": [{"col": [al, "prev"]}]}])
        S(id="x1", op="export", src=last, target="polars", ordered=False)
    elif kind == "scen_summarize_case_key":
        # a grouping column *inside* a case expression or under a cast in a grouped summarize: still one scalar per group
        a = table("src0", [("g", "int"), ("a", "int")], nrows=r.choice([5, 8]))
        gb, sm = g.fresh_t(), g.fresh_t()
        gcol, acol = {"col": [a.tid, "g"]}, {"col": [a.tid, "a"]}
        S(id=gb, op="group_by", src=a.tid, cols=[gcol])
        S(id=sm, op="summarize", src=gb, cols=[
            ["x", {"case": [[{"fn": "is_null", "args": [gcol]}, {"lit": 0}]], "default": {"fn": "sum", "args": [acol]}}],
            ["y", {"cast": {"fn": "add", "args": [{"fn": "max", "args": [acol]}, gcol]}, "to": "float64"}],
            ["z", {"fn": "add", "args": [gcol, {"fn": "count_star", "args": []}]}]])
        S(id="x1", op="export", src=sm, target="polars", ordered=False)
    elif kind == "scen_empty_args":
        # verbs called without arguments are legal and do nothing: filter() keeps every row, mutate() / rename({}) / drop()
        # change nothing (arrange needs a key) - between ordinary verbs, on a table with rows
        a = table("src0", [("a", "int"), ("b", "int"), ("s", "string")], nrows=r.choice([3, 5, 7]))
        cur = a.tid
        steps = [dict(op="filter", preds=[]), dict(op="mutate", cols=[]), dict(op="rename", map=[]), dict(op="drop", cols=[]),
                 dict(op="filter", preds=[{"fn": "greater_than", "args": [{"col": [a.tid, "id"]}, {"lit": 1}]}]),
                 dict(op="mutate", cols=[["w", {"fn": "add", "args": [{"col": [a.tid, "a"]}, {"lit": 1}]}]]),
                 dict(op="arrange", by=[{"fn": "descending", "args": [{"col": [a.tid, "id"]}]}])]
        chosen = [steps[0]] + r.sample(steps[1:], r.randint(2, 5))
        r.shuffle(chosen)
        for st in chosen:
            nxt = g.fresh_t()
            S(id=nxt, src=cur, **st)
            cur = nxt
        S(id="x1", op="export", src=cur, target="polars", ordered=False)
    else:
        raise ValueError(kind)
    p = g.program()
    meta = dict(features=[kind], ops=[], verbs=[s["op"] for s in g.stmts], final="x1")
    return p, meta


_orig_gen_program = gen_program


def gen_program(seed: int, profile="general", **kw):  # noqa: F811
    if profile.startswith("scen_"):
        return _scenario(seed, profile)
    if profile.startswith("equiv_"):
        from . import equiv

        return equiv.gen_equiv(seed, profile)
    return _orig_gen_program(seed, profile, **kw)


def vary_tables(program: dict, seed: int, nrows_choices=(3, 5, 8, 12)) -> dict:
    """the same statements over freshly drawn table contents (directed search for a failing input once
    a correspondence has broken): `id` stays a unique non-null key, a column keeps its dtype and gets
    nulls only if it had some (the statements' nulls markers were chosen from that)"""
    g = Gen(seed, max_rows=12, profile="general")
    r = g.rng
    out = copy.deepcopy(program)
    cls_of = {"int64": "int", "float64": "float", "bool": "bool", "string": "string"}
    for t in out["tables"]:
        n = r.choice(nrows_choices)
        for c in t["cols"]:
            vals = c["vals"]
            uniq = c["name"] == "id" or (len(vals) > 1 and None not in vals and len(set(map(str, vals))) == len(vals) and c["dtype"] == "int64")
            if uniq:
                c["vals"] = g.shuffled(list(range(1, n + 1)))
            else:
                nd = 0.3 if any(v is None for v in vals) else 0.0
                c["vals"] = g.gen_values(cls_of.get(c["dtype"], "int"), n, nd, dup_heavy=r.random() < 0.6)
    out["seed"] = f"{program.get('seed')}/v{seed}"
    return out
