"""./check Cxx --replay <file>: re-execute the input of a reported violation on the current tree.

Program replays are run on Polars and SQLite, compared with each other, with the Lean reference
semantics and (front end) with the Lean model; the remaining kinds print the recorded case.  Exit code 1
when the deviation is still observed, 0 when it is gone."""
from __future__ import annotations

import json
import sys


def replay(prop: str, path: str) -> int:
    d = json.load(open(path))
    print(json.dumps({k: v for k, v in d.items() if k not in ("program", "theorems")}, indent=1)[:3000])
    p = d.get("program")
    if not isinstance(p, dict) or "stmts" not in p:
        print("(no program in this replay: the recorded case above is the input; see harness/%s.py for the runner)" % prop.lower())
        return 1 if d.get("kind") not in (None,) else 0
    from . import frontchecks, oracle, speccheck  # noqa: F401

    po, so = oracle.run_both(p)
    name = {"C08": "oracle_c08", "C09": "oracle_c09", "C11": "oracle_c11", "C16": "oracle_c16", "C14": "oracle_c14_accept",
            "C12": "oracle_c12", "C15": "oracle_c15"}.get(prop, "diff_c01")
    if prop == "C08":
        from . import c08  # noqa: F401
    diffs = list(getattr(oracle, name)(p, po, so))
    try:
        diffs += speccheck.spec_diffs_of(p, "polars", po) + speccheck.spec_diffs_of(p, "sqlite", so)
    except Exception as e:  # noqa: BLE001
        print("(Spec comparison not available: %s)" % e)
    for st in p["stmts"]:
        print(json.dumps(st)[:400])
    for be, obs in (("polars", po), ("sqlite", so)):
        for o in obs:
            if o["outcome"] == "error":
                print(f"  {be}: {o['id']} {o['op']} raised {o['exc']}: {o.get('msg')}")
            elif o["op"] == "export":
                print(f"  {be}: {o['id']} -> {o['frame']['names']} {o['frame']['rows'][:8]}")
    if diffs:
        print("STILL OBSERVED:")
        for x in diffs[:6]:
            print("  ", json.dumps(x)[:400])
        return 1
    print("no deviation on the current tree")
    return 0


if __name__ == "__main__":
    sys.exit(replay(sys.argv[1], sys.argv[2]))
