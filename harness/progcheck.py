"""Generic driver of the program-based checks: proof obligations, program campaign with a
property oracle, front-end model correspondence, classification against known findings,
shrinking, evidence."""

from __future__ import annotations

import random

from . import campaign, common, front, frontchecks  # noqa: F401  (registers the oracles)
from .c08 import coverage, proof_status, report_new
from .common import Verdict


def run(prop, tier, seed, oracle_name, profiles, n_quick, n_thorough, also=(), assumptions=(), extra_new=None, extra_cov=None,
        corr_backends=("polars", "sqlite"), gen_kw=None):
    v = Verdict(prop, tier, seed)
    po = common.proof_obligations(prop)
    findings = common.findings_for(prop, also=also)
    n = n_quick if tier == "quick" else n_thorough
    sp = [(seed * 1_000_003 + i, profiles[i % len(profiles)]) for i in range(n)]
    results = campaign.run_programs(sp, oracle_name, gen_kw=gen_kw)
    st = campaign.stats_of(results)
    corr = []
    if po["build"]["ok"]:
        items = []
        for r in results:
            if "crash" in r:
                continue
            for be in corr_backends:
                items.append((r["program"], be, r[be]))
        mo = front.model_run(items)
        for (p, be, ro), m in zip(items, mo):
            if m is None:
                corr.append(dict(kind="driver_error", seed=p.get("seed")))
                continue
            for d in front.compare_front(p, be, ro, m):
                corr.append(dict(d, seed=p.get("seed"), profile=p.get("profile"), backend=be))
    known_hits, new = {}, []
    for r in results:
        if "crash" in r:
            new.append((None, dict(kind="harness_crash", stmt="", detail=r["crash"][-800:])))
            continue
        k, nw = campaign.classify(r["program"], r["diffs"], r["trig"], findings, prop)
        for fid, ds in k.items():
            known_hits.setdefault(fid, []).extend(ds)
        new += [(r, d) for d in nw]
    extra_corr = []
    if extra_new is not None:
        en, ec, ecov = extra_new(po, findings, known_hits)
        new += en
        extra_corr = ec
        extra_cov = dict(extra_cov or {}, **ecov)
    report_new(v, new, oracle_name)
    for f in findings:
        if f["id"] in known_hits:
            v.known_finding(f"{f['id']}: {f['summary']} ({len(known_hits[f['id']])} instances)")
    broken = proof_status(po, corr + extra_corr)
    if broken and not new:
        v.violation("unproved", dict(what=f"a proof obligation or the model/code correspondence of {prop} no longer checks and the search over "
                                          "the real code found no failing input", broken=broken, theorems=po.get("theorems")), no_input=True)
    v.coverage = coverage(po, results, st, corr + extra_corr, known_hits, extra=extra_cov)
    v.assumptions = list(assumptions)
    return v.finish("proof")
