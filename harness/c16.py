"""C16 — alias / collect / transfer_col_references re-root a table without changing data.

Deciding method: Lean theorems over the Cache model (Pdt/Props/C16.lean: alias_keep_refs,
alias_lineage, alias_self_join_accepted, self_join_rejected, alias_scope, origin_ref_rejected,
own_ref_resolves; C11.alias_columns), tied by the front-end correspondence.  Oracle: for the final
table of every generated program — alias(), alias(keep_col_refs=True), repeated alias, collect()
leave names, order, data and grouping unchanged; references behave as stated; self-joins.
"""
from . import progcheck

PROP = "C16"


def run(tier, seed):
    return progcheck.run(PROP, tier, seed, "oracle_c16", ["rowlevel", "general", "agg", "scen_selfjoin_agg", "window", "rowlevel", "join"], 220, 5000, also=("C01",),
                         assumptions=["data-level equality (alias/collect change no value) is checked on the real code; the model-level theorems are about "
                                      "names, identities, scope and lineage", "transfer_col_references is exercised directly on a materialised copy (Polars frame) of the final table and on a copy whose names come from a rename, besides collect()"])
