"""C10 — tables and expressions are immutable values.

Deciding method: a Lean heap model of the copy-then-rebind discipline of `preprocess_arg` /
`map_children` with the frame theorem `pre_frame` (no object that existed before the call changes —
for every heap, expression, depth and sharing; Pdt/Props/C10.lean), tied to the code by running the
real `preprocess_arg` on generated expression objects and comparing what it wrote / shared / allocated
with the executable model.  The rest of the property lives in the Python object model and is decided on
the real code: deep fingerprints of every existing table, cache, AST node, expression object and source
frame before and after every verb, export and build_query of generated histories (Polars, SQLite, and
the SQL Server / PostgreSQL dialect compilers); one expression object reused under different grouping
states and in mutate and summarize vs fresh objects; repeated and late exports.
"""
from __future__ import annotations

import copy
import json
import multiprocessing as mp
import os
import random
import traceback
import warnings

from . import common, gen, heapfp, oracle
from . import prog as P
from .c08 import proof_status
from .common import Verdict

PROP = "C10"


# ------------------------------------------------------------------ reuse programs
def reuse_program(seed: int):
    """a base pipeline, then one expression *object* used in several verbs, on several tables and under
    different grouping states (statements `expr` define objects, `{"ref": id}` uses them)"""
    r = random.Random(seed)
    g, cur = gen._orig_gen_program(seed, r.choice(["rowlevel", "general", "agg"]), n_verbs=r.randint(0, 3), exports=None, _ret_gen=True)
    if cur.group:
        cur = g.v_ungroup(cur) or cur
    t = cur.tid
    n = [0]

    def T(p="r"):
        n[0] += 1
        return f"{p}{n[0]}"

    def S(**kw):
        g.stmts.append(kw)
        return kw["id"]

    def X(src):
        g.next_e += 1
        return S(id=f"x{g.next_e}", op="export", src=src, target="polars", ordered=False)

    uses = []
    keys = [c for cls in ("int", "string", "bool") for c in g.cols_of(cur, cls, hidden_ok=False)]
    kname = (lambda c: [nm for nm, cc in cur.visible if cc == c][0])
    kind = r.choice(["agg", "agg", "window", "ewise"])
    e = None
    if kind == "agg":
        e = g.agg(cur, r.choice(["int", "float", "bool"]), 2, window=False)
        if r.random() < 0.4 and e is not None:
            e = g.fn("add", e, {"lit": 1}) if r.random() < 0.5 else g.fn("fill_null", e, e)
    elif kind == "window":
        e = g.window(cur, r.choice(["int", "string", "bool"]))
    if e is None:
        kind = "ewise"
        e = g.ewise(cur, r.choice(["int", "bool", "string", "float"]), 3)
    # references through C.name resolve per table; keep them (that is part of "usable on several tables")
    eid = S(id=T("E"), op="expr", e=e)
    ref = {"ref": eid}
    first = S(id=T(), op="mutate", src=t, cols=[["w1", ref]])
    uses.append(X(first))
    if keys:
        k = {"col": [t, kname(r.choice(keys))]}
        gb = S(id=T(), op="group_by", src=t, cols=[k])
        m = S(id=T(), op="mutate", src=gb, cols=[["w2", ref]])
        uses.append(X(S(id=T(), op="ungroup", src=m)))
        if kind == "agg":
            uses.append(X(S(id=T(), op="summarize", src=gb, cols=[["w3", ref]])))
        if len(keys) > 1:
            k2 = {"col": [t, kname(r.choice(keys))]}
            gb2 = S(id=T(), op="group_by", src=t, cols=[k, k2] if k2 != k else [k2])
            uses.append(X(S(id=T(), op="ungroup", src=S(id=T(), op="mutate", src=gb2, cols=[["w4", ref]]))))
    if kind == "agg":
        uses.append(X(S(id=T(), op="summarize", src=t, cols=[["w5", ref]])))
    if kind == "ewise":
        al = S(id=T(), op="alias", src=t, keep_col_refs=True)
        uses.append(X(S(id=T(), op="mutate", src=al, cols=[["w6", ref], ["w7", ref]])))
    # the very first use once more, after the object went through all the other contexts
    again = S(id=T(), op="mutate", src=t, cols=[["w1", ref]])
    xa = X(again)
    p = g.program()
    p["profile"] = "reuse"
    p["same"] = [[uses[0], xa]]
    return p


def inline_refs(program: dict) -> dict:
    """the same program with a fresh expression object at every use"""
    defs = {s["id"]: s["e"] for s in program["stmts"] if s["op"] == "expr"}

    def rec(j):
        if isinstance(j, dict):
            if "ref" in j:
                return copy.deepcopy(rec(defs[j["ref"]]))
            return {k: rec(v) for k, v in j.items()}
        if isinstance(j, list):
            return [rec(x) for x in j]
        return j
    return dict(program, stmts=[rec(s) for s in program["stmts"] if s["op"] != "expr"])


# ------------------------------------------------------------------ fingerprinted run
def run_fingerprinted(program: dict, backend: str):
    """run the program; around every statement compare the fingerprints of everything that existed"""
    import pydiverse.transform as pdt

    reports, frames, queries = [], {}, {}
    with warnings.catch_warnings():
        warnings.simplefilter("ignore")
        env = P.Env(program, backend)

        def roots():
            return list(env.tables.values()) + list(env.exprs.values()) + list(env.frames.values())

        def guarded(label, st, fn):
            before = heapfp.snapshot(roots())
            try:
                res = fn()
                err = None
            except Exception as e:  # noqa: BLE001
                res, err = None, P.exc_class(e)
            after = heapfp.snapshot(roots())
            for c in heapfp.changed(before, after):
                reports.append(dict(kind="object_mutated", stmt=st["id"], op=label, backend=backend, detail=c, exc=err))
            return res, err

        for st in program["stmts"]:
            if any(st.get(k) is not None and st[k] not in env.tables for k in ("src", "right")):
                continue
            res, err = guarded(st["op"], st, lambda st=st: env.apply(st))
            if err is not None:
                continue
            if st["op"] == "expr":
                env.exprs[st["id"]] = res
            elif st["op"] == "export":
                if isinstance(res, dict) and "query" in res:
                    queries[st["id"]] = res["query"]
                    if not res.get("same", True):
                        reports.append(dict(kind="build_query_not_repeatable", stmt=st["id"], op="build_query", backend=backend))
                else:
                    frames[st["id"]] = res
                    # a second export of the same table object
                    res2, err2 = guarded("export(2nd)", st, lambda st=st: env.apply(st))
                    if err2 is not None or oracle.compare_frames(res, res2, bool(st.get("ordered"))):
                        reports.append(dict(kind="export_not_repeatable", stmt=st["id"], op="export", backend=backend, exc=err2))
            else:
                env.tables[st["id"]] = res
        # late re-export: every table exported before gives the same result after all the other pipelines
        for st in program["stmts"]:
            if st["op"] == "export" and st["id"] in frames and st["src"] in env.tables:
                res, err = guarded("export(late)", st, lambda st=st: env.apply(st))
                if err is not None or oracle.compare_frames(frames[st["id"]], res, bool(st.get("ordered"))):
                    reports.append(dict(kind="late_export_differs", stmt=st["id"], op="export", backend=backend, exc=err))
        # the source frames / database tables still hold the data of the program text
        for tb in program["tables"]:
            want = P.frame_obs(P.make_frame(tb))
            if oracle.compare_frames(want, P.frame_obs(env.frames[tb["name"]]), True):
                reports.append(dict(kind="source_frame_changed", stmt=tb["name"], op="source", backend=backend))
            if backend == "sqlite" and tb["cols"]:
                import polars as pl

                with env.engine.connect() as conn:
                    got = pl.read_database(f'SELECT * FROM "{tb["name"]}"', connection=conn,
                                           schema_overrides={c["name"]: P.PL_TYPES[c["dtype"]] for c in tb["cols"]})
                if oracle.compare_frames(want, P.frame_obs(got), False):
                    reports.append(dict(kind="source_table_changed", stmt=tb["name"], op="source", backend=backend))
    return reports, frames, queries


def _one(args):
    seed, profile = args
    try:
        if profile == "reuse":
            p = reuse_program(seed)
        else:
            p, _ = gen.gen_program(seed, profile=profile, exports="all" if seed % 3 == 0 else "last")
        out = dict(seed=seed, profile=profile, program=p, reports=[], n_stmts=len(p["stmts"]))
        for be in ("polars", "sqlite", "mssql"):
            reps, frames, queries = run_fingerprinted(p, be)
            out["reports"] += reps
            if profile == "reuse" and be != "mssql":
                # same object reused vs a fresh object per use
                q = inline_refs(p)
                reps2, frames2, _ = run_fingerprinted(q, be)
                out["reports"] += [dict(r, variant="fresh") for r in reps2]
                for xid, fr in frames.items():
                    if xid in frames2:
                        d = oracle.compare_frames(fr, frames2[xid], False)
                        if d:
                            out["reports"].append(dict(kind="reuse_differs_from_fresh", stmt=xid, op="export", backend=be, detail=d))
                    else:
                        out["reports"].append(dict(kind="reuse_differs_from_fresh", stmt=xid, op="export", backend=be, detail="fresh variant failed"))
                for xid in frames2:
                    if xid not in frames:
                        out["reports"].append(dict(kind="reuse_differs_from_fresh", stmt=xid, op="export", backend=be, detail="reused variant failed"))
                for a, b in p.get("same", []):
                    if a in frames and b in frames and oracle.compare_frames(frames[a], frames[b], False):
                        out["reports"].append(dict(kind="result_depends_on_history", stmt=b, op="export", backend=be))
            out.setdefault("exports", 0)
            out["exports"] += len(frames) + len(queries)
        return out
    except Exception:  # noqa: BLE001
        return dict(seed=seed, profile=profile, crash=traceback.format_exc())


# ------------------------------------------------------------------ heap model correspondence
def _tree_of(e):
    """JSON tree of a real expression object for the Lean heap model"""
    from pydiverse.transform._internal.ops.op import Ftype
    from pydiverse.transform._internal.tree.col_expr import ColFn

    if isinstance(e, ColFn):
        return dict(op=e.op.name, aggwin=e.op.ftype in (Ftype.AGGREGATE, Ftype.WINDOW), args=[_tree_of(a) for a in e.args],
                    ctx={k: [_tree_of(x.order_by if hasattr(x, "order_by") else x) for x in v] for k, v in e.context_kwargs.items()})
    return dict(leaf=type(e).__name__)


def _nodes(e, acc):
    from pydiverse.transform._internal.tree.col_expr import CaseExpr, Cast, ColExpr, ColFn

    acc.append(e)
    if isinstance(e, ColFn):
        for a in e.args:
            _nodes(a, acc)
        for v in e.context_kwargs.values():
            for x in v:
                _nodes(x.order_by if hasattr(x, "order_by") else x, acc)
    return acc


def heap_stream(n, seed):
    """(request for the driver, real observation) pairs"""
    import pydiverse.transform as pdt
    from pydiverse.transform._internal.pipe.verbs import preprocess_arg
    from pydiverse.transform._internal.tree.col_expr import CaseExpr, Cast, ColFn

    reqs, real, skipped = [], [], 0
    with warnings.catch_warnings():
        warnings.simplefilter("ignore")
        for i in range(n):
            s = seed * 1_000_003 + i
            r = random.Random(s)
            g, cur = gen._orig_gen_program(s, "rowlevel", n_verbs=r.randint(0, 2), exports=None, _ret_gen=True)
            if cur.group:
                cur = g.v_ungroup(cur) or cur
            kind = r.choice(["agg", "window", "ewise", "agg"])
            e = g.agg(cur, r.choice(["int", "float"]), 2, window=False) if kind == "agg" else g.window(cur, "int") if kind == "window" else None
            if e is None:
                e = g.ewise(cur, r.choice(["int", "bool", "string"]), 3)
            if r.random() < 0.3:
                e = g.fn("fill_null", e, e)
            keys = g.cols_of(cur, "int", hidden_ok=False)
            grouped = bool(keys) and r.random() < 0.6
            p = g.program()
            env = P.Env(p, "polars")
            ok = True
            for st in p["stmts"]:
                try:
                    env.tables[st["id"]] = env.apply(st)
                except Exception:  # noqa: BLE001
                    ok = False
                    break
            if not ok or cur.tid not in env.tables:
                skipped += 1
                continue
            t = env.tables[cur.tid]
            if grouped:
                kn = [nm for nm, c in cur.visible if c == keys[0]][0]
                t = t >> pdt.group_by(t[kn])
            try:
                obj = env.expr(e)
            except Exception:  # noqa: BLE001
                skipped += 1
                continue
            if not isinstance(obj, ColFn):
                skipped += 1
                continue
            nodes = _nodes(obj, [])
            if any(isinstance(x, (CaseExpr, Cast)) for x in nodes):
                skipped += 1          # the heap model has ColFn nodes and leaves only
                continue
            before = heapfp.snapshot([obj, t])
            before_ids = {id(x) for x in nodes} | {id(x.args) for x in nodes if isinstance(x, ColFn)} | \
                         {id(x.context_kwargs) for x in nodes if isinstance(x, ColFn)}
            aiw = r.random() < 0.8
            try:
                res = preprocess_arg(obj, t, agg_is_window=aiw)
            except Exception:  # noqa: BLE001
                skipped += 1
                continue
            after = heapfp.snapshot([obj, t])
            rn = _nodes(res, [])
            if any(isinstance(x, Cast) for x in rn):
                skipped += 1          # bool add / sum: inserted casts
                continue
            res_ids = {id(x) for x in rn} | {id(x.args) for x in rn if isinstance(x, ColFn)} | {id(x.context_kwargs) for x in rn if isinstance(x, ColFn)}
            obs = (f"old_written={len(heapfp.changed(before, after))} shared={len(res_ids & before_ids)} result_nodes={len(rn)} "
                   f"partition_nodes={sum(1 for x in rn if isinstance(x, ColFn) and 'partition_by' in x.context_kwargs)}")
            reqs.append(dict(cmd="heap", grouped=grouped, agg_is_window=aiw, tree=_tree_of(obj)))
            real.append(obs)
    return reqs, real, skipped


def run(tier: str, seed: int) -> int:
    v = Verdict(PROP, tier, seed)
    po = common.proof_obligations(PROP)
    quick = tier == "quick"
    corr = []
    # --- heap model vs preprocess_arg
    reqs, real, skipped = heap_stream(500 if quick else 6000, seed)
    n_heap = 0
    if po["build"]["ok"] and reqs:
        model = common.run_driver(reqs)
        for rq, a, b in zip(reqs, real, model):
            n_heap += 1
            if a != b:
                corr.append(dict(kind="heap_model", request=rq, real=a, model=b))
    # real-code side of the same observation: the model's prediction is also the property
    new = []
    for rq, a in zip(reqs, real):
        if not a.startswith("old_written=0 shared=0 "):
            new.append((None, dict(kind="preprocess_arg_touches_argument", stmt="", op="preprocess_arg", detail=a, request=rq)))
    # --- fingerprinted histories
    n = 240 if quick else 6000
    profiles = ["reuse", "general", "reuse", "agg", "window", "reuse", "join", "subquery", "union"]
    args = [(seed * 1_000_003 + i, profiles[i % len(profiles)]) for i in range(n)]
    ctx = mp.get_context("fork")
    with ctx.Pool(min(14, os.cpu_count() or 4)) as pool:
        results = pool.map(_one, args, chunksize=4)
    kinds, exports, stmts = {}, 0, 0
    for r in results:
        if "crash" in r:
            new.append((None, dict(kind="harness_crash", stmt="", op="", detail=r["crash"][-600:])))
            continue
        exports += r.get("exports", 0)
        stmts += r["n_stmts"]
        for d in r["reports"]:
            kinds[d["kind"]] = kinds.get(d["kind"], 0) + 1
            new.append((r, d))
    # --- expression API: building a new expression from a kept one (when / then continued from a partial case expression,
    #     operators, methods, context arguments, use in a verb) leaves the kept object unchanged
    from . import exprapi

    api = exprapi.run_stream()
    api_hist = {}
    for a in api:
        api_hist[a["outcome"]] = api_hist.get(a["outcome"], 0) + 1
        if a["outcome"] in ("changed", "value_changed"):
            new.append((None, dict(kind="expression_" + a["outcome"], stmt="", op=a["builder"], detail=a.get("detail"), receiver=a["receiver"],
                                   how="python -m harness.exprapi")))
    groups = {}
    for r, d in new:
        groups.setdefault((d["kind"], d.get("op"), d.get("backend")), []).append((r, d))
    for key, items in list(groups.items())[:8]:
        r, d = items[0]
        payload = dict(kind=key[0], op=key[1], backend=key[2], n_cases=len(items), first=d)
        if r is not None:
            payload.update(program=r["program"], original_seed=r["seed"], profile=r["profile"])
        v.violation("-".join(str(k) for k in key if k), payload)
    broken = proof_status(po, corr)
    if broken and not new:
        v.violation("unproved", dict(what="a proof obligation or the heap-model correspondence of C10 no longer checks and the fingerprint search over "
                                          "the real code found no mutated object", broken=broken, theorems=po.get("theorems")), no_input=True)
    ok = [r for r in results if "crash" not in r]
    v.coverage = dict(
        obligations=po["obligations"], discharged=po["discharged"],
        checker_cmd="cd lean && lake build Pdt.Props.C10 && lake env lean ../out/audit/Pdt_Props_C10.lean  (#print axioms)",
        trusted_base=common.TRUSTED_BASE + ["harness/heapfp.py: which object kinds are walked and that memoised _dtype / _ftype (None -> value) are not observable"],
        theorems=po["theorems"], axioms=po["audit"].get("axioms"), proof_ok=po["ok"],
        heap_correspondence_requests=n_heap, heap_stream_skipped=skipped, disagreements_checked=len(corr),
        programs=len(ok), statements_fingerprinted=stmts * 3, exports_and_query_builds=exports,
        reuse_programs=sum(1 for r in ok if r["profile"] == "reuse"), backends=["polars", "sqlite", "mssql (query build only)"],
        report_kinds=kinds, expression_api_cases=len(api), expression_api_outcomes=api_hist,
        rule="every statement, every export (twice, and once more at the end of the history) and every query build is bracketed by deep fingerprints "
             "of all tables, expression objects and source frames alive at that point; reuse programs are also run with fresh objects per use; "
             "expression API stream (harness/exprapi.py): every builder applied to every kind of kept expression object, fingerprint and value before / after",
        samples=[dict(seed=r["seed"], profile=r["profile"], stmts=r["program"]["stmts"][-6:]) for r in ok[:2]] or [dict(note="no program ran")],
    )
    v.assumptions = ["object identity, aliasing and in-place mutation are Python runtime facts: the Lean theorem is about the heap model of preprocess_arg; the "
                     "AST clone done by export / build_query and the backends' in-place rewrites of the clone are covered by the fingerprint oracle only",
                     "pipelines without rand(); results compared up to row order where no arrange fixes it"]
    return v.finish("proof")
