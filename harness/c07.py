"""C07 — union stacks rows by column name; distinct removes duplicates.

Deciding method: Lean theorems about the union of the reference semantics and the union checks of
the front-end model (Pdt/Props/C07.lean), tied to the code by the front-end correspondence and by
comparing the exported frames (multisets) with the Spec."""
from . import speccheck

PROP = "C07"


def refusal_stream(v, findings):
    """the refusals of the property (grouped operand, different visible column names - also when one side shows a superset of the
    other's columns) behind random row-level histories, on both backends: the verb call itself raises ValueError"""
    from . import prog as P
    from . import reject

    n = 60 if v.tier == "quick" else 1500
    bad, rules = [], {}
    for i in range(n):
        r = reject.build(v.seed * 1_000_003 + i, only=("union_",))
        if r is None:
            continue
        p, oid, exp, rule = r
        rules["/".join(rule)] = rules.get("/".join(rule), 0) + 1
        for be in ("polars", "sqlite"):
            o = next(x for x in P.run_program(p, be) if x["id"] == oid)
            if not (o["outcome"] == "error" and o["exc"] in exp):
                bad.append((p, dict(kind="wrong_rejection", rule=list(rule), backend=be, outcome=o["outcome"], exc=o.get("exc"), expected=exp)))
    by = {}
    for p, d in bad:
        by.setdefault((d["rule"][0], d["rule"][1]), []).append(dict(program=p, **d))
    for key, items in by.items():
        v.violation("refusal-" + "-".join(key), dict(kind="wrong_rejection", rule=list(key), n_cases=len(items), cases=items[:3], how="harness/c07.py:refusal_stream"))
    return len(by), dict(union_refusal_rules=rules)


def run(tier, seed):
    return speccheck.run(PROP, tier, seed, ["union", "union", "scen_union_const", "scen_union_distinct", "scen_union_agg_right", "join", "union", "general"], 300, 10000, also=("C01",), extra_stream=refusal_stream,
                         assumptions=["different-backend unions cannot be expressed within one program run; that refusal is not exercised"])
