"""C07 — union stacks rows by column name; distinct removes duplicates.

Deciding method: Lean theorems about the union of the reference semantics and the union checks of
the front-end model (Pdt/Props/C07.lean), tied to the code by the front-end correspondence and by
comparing the exported frames (multisets) with the Spec."""
from . import speccheck

PROP = "C07"


def run(tier, seed):
    return speccheck.run(PROP, tier, seed, ["union", "union", "scen_union_const", "scen_union_distinct", "scen_union_agg_right", "join", "union", "general"], 300, 10000, also=("C01",),
                         assumptions=["different-backend unions cannot be expressed within one program run; that refusal is not exercised"])
