#!/bin/bash
# usage: harness/seedrun.sh <seed id> <property> [tier]  — apply the seeded patch to /repo, run the check, undo
cd "$(dirname "$0")/.."
S=$1; P=$2; T=${3:-quick}
if ! git -C /repo apply --check "$PWD/seeded/$S/patch.diff" 2>/dev/null; then echo "PATCH-DOES-NOT-APPLY $S"; exit 3; fi
git -C /repo apply "$PWD/seeded/$S/patch.diff"
timeout 3000 ./check $P --tier $T > out/seedrun_${S}_$P.log 2>&1; rc=$?
git -C /repo checkout -- . 
echo "$S $P rc=$rc $(grep -c VIOLATION out/seedrun_${S}_$P.log) violation lines"; grep -m3 VIOLATION out/seedrun_${S}_$P.log
