"""C04 — summarize and aggregate functions: one row per group, nulls ignored.

Deciding method: Lean theorems about the aggregate functions and the summarize verb of the reference
semantics (Pdt/Props/C04.lean), tied to the code by comparing the frames exported by Polars and
SQLite for generated aggregation programs with the frame of the Lean Spec (and SQLite's with the
Lean SQL-compiler model), plus the front-end correspondence."""
from . import speccheck

PROP = "C04"


def run(tier, seed):
    return speccheck.run(PROP, tier, seed, ["agg", "scen_having_chain", "scen_summarize_case_key", "agg", "scen_summarize_key", "scen_const_key", "general", "agg", "subquery", "tall"], 300, 10000, also=("C01",),
                         assumptions=["Polars group_by().agg() and SQLite GROUP BY are modelled by Spec.groupsOf / Ops.agg; their agreement with the engines is by comparison on generated programs"])
