"""C12, typed operator grid: every operator of the registry, every signature (type variables instantiated with every
column dtype of the grid table, date / datetime / duration included), constant parameters with several values
(both signs for integers), applied to real columns on Polars and on SQLite; the static `dtype()` of the expression
must predict the dtype of the exported column (exactly on Polars, up to the numeric family on SQLite; only all-null
columns may come out Null-typed).  The random program generator has no temporal columns and reaches few overloads;
this grid is where a dropped `type_=` of one dialect branch of one operator shows.
"""

from __future__ import annotations

import datetime as dt
import itertools

from .frontchecks import _static_ok

ROWS = 5


def _frame():
    import polars as pl

    return pl.DataFrame({
        "k": [1, 2, 3, 4, 5],
        "i": [3, None, -2, 7, 0],
        "f": [1.5, -0.25, None, 2.0, 8.0],
        "s": ["ab", None, " c ", "Ab", "12"],
        "b": [True, False, None, True, False],
        "d": [dt.date(2020, 2, 29), None, dt.date(1999, 12, 31), dt.date(2021, 1, 1), dt.date(2020, 2, 28)],
        "t": [dt.datetime(2020, 2, 29, 12, 30, 1), dt.datetime(2001, 1, 1, 0, 0, 0), None, dt.datetime(2021, 6, 1, 23, 59, 59),
              dt.datetime(2020, 2, 28, 1, 2, 3)],
        "u": [dt.timedelta(days=1), dt.timedelta(seconds=5), None, dt.timedelta(hours=-3), dt.timedelta(0)],
        # narrow / unsigned integers: an implementation registered for Int64 only must not be what decides the result type
        "j": [3, None, -2, 7, 0],
        "w": [3, None, 2, 7, 0],
    }, schema={"j": pl.Int8, "w": pl.UInt16, "k": pl.Int64, "i": pl.Int64, "f": pl.Float64, "s": pl.String, "b": pl.Boolean, "d": pl.Date, "t": pl.Datetime("us"),
               "u": pl.Duration("us")})


_TABLES = {}


def tables():
    import pydiverse.transform as pdt
    import sqlalchemy as sqa

    if not _TABLES:
        df = _frame()
        eng = sqa.create_engine("sqlite://")
        df.drop("u").write_database("c12grid", eng)      # SQLite has no interval type: the duration column exists on Polars only
        _TABLES["polars"] = lambda: pdt.Table(df, name="c12grid")
        _TABLES["sqlite"] = lambda: pdt.Table("c12grid", pdt.SqlAlchemy(eng))
    return _TABLES


def _Duration():
    from pydiverse.transform._internal.tree import types

    return types.Duration()


def _col_types():
    import pydiverse.transform as pdt

    return [("i", pdt.Int64()), ("f", pdt.Float64()), ("s", pdt.String()), ("b", pdt.Bool()), ("d", pdt.Date()), ("t", pdt.Datetime()),
            ("u", _Duration())]


def _narrow_ints():
    import pydiverse.transform as pdt

    return [("j", pdt.Int8()), ("w", pdt.UInt16())]


def _const_values(ty):
    import pydiverse.transform as pdt
    from pydiverse.transform._internal.tree import types

    ty = types.without_const(ty)
    if ty.is_int() or type(ty) is pdt.Int:
        return [2, -1, 0]
    if ty.is_float() or type(ty) is pdt.Float:
        return [2.5]
    if ty == pdt.String():
        return ["b"]
    if ty == pdt.Bool():
        return [True]
    if ty == pdt.Date():
        return [dt.date(2000, 1, 1)]
    if ty == pdt.Datetime():
        return [dt.datetime(2000, 1, 1, 1, 1, 1)]
    if ty == _Duration():
        return [dt.timedelta(hours=2)]
    return []


def cases():
    """(case id, builder(table) -> (pipeline, static dtype text))"""
    from pydiverse.transform._internal.ops import ops
    from pydiverse.transform._internal.ops.op import Ftype, Operator
    from pydiverse.transform._internal.tree import types

    cts = _col_types()
    out = []
    seen = set()
    for attr in sorted(dir(ops)):
        op = getattr(ops, attr)
        if not isinstance(op, Operator) or attr in ("rand", "ascending", "descending", "nulls_first", "nulls_last",
                                                    "str_to_date", "str_to_datetime", "str_slice"):   # markers; data-dependent parsers (C17); str_slice: the grid's integer column holds negative lengths (outside the function's domain)
            continue
        for si, sig in enumerate(op.signatures):
            params = list(sig.types)
            if len(params) > 3:
                continue
            if sig.is_vararg and params:
                params = params + [params[-1]]
            tyvars = sorted({str(types.without_const(p)) for p in params if isinstance(types.without_const(p), types.Tyvar)})
            insts = [dict()] if not tyvars else [dict(zip(tyvars, combo)) for combo in itertools.product(cts, repeat=len(tyvars))]
            for inst in insts:
                # per parameter: the list of alternatives (column name, or constant value)
                alts = []
                ok = True
                for p in params:
                    base = types.without_const(p)
                    if isinstance(base, types.Tyvar):
                        cn, cty = inst[str(base)]
                        if types.is_const(p):
                            vals = _const_values(cty)
                            alts.append([("const", v) for v in vals] or None)
                        else:
                            alts.append([("col", cn)])
                    elif types.is_const(p):
                        vals = _const_values(base)
                        alts.append([("const", v) for v in vals] or None)
                    else:
                        cands = [cn for cn, cty in cts if cty == base] or [cn for cn, cty in cts if types.converts_to(cty, base)]
                        if cands and cands[0] == "i" and len(params) <= 2:
                            # an integer parameter: also the narrow and the unsigned column
                            cands = cands[:1] + [cn for cn, cty in _narrow_ints() if types.converts_to(cty, base)]
                        else:
                            cands = cands[:1]
                        alts.append([("col", cn) for cn in cands] if cands else None)
                    if alts[-1] is None:
                        ok = False
                        break
                if not ok:
                    continue
                for combo in itertools.product(*alts):
                    cid = f"{attr}.{si}." + ",".join(f"{k}:{v}" for k, v in combo)
                    if cid in seen:
                        continue
                    seen.add(cid)

                    def mk(t, op=op, combo=combo):
                        import pydiverse.transform as pdt
                        from pydiverse.transform._internal.tree.col_expr import ColFn

                        args = [t[v] if k == "col" else pdt.lit(v) for k, v in combo]
                        kw = {}
                        names = {k.name for k in op.context_kwargs}
                        if op.ftype == Ftype.WINDOW or any(k.name == "arrange" and k.required for k in op.context_kwargs):
                            kw["arrange"] = [t.k]
                        elif op.ftype == Ftype.AGGREGATE and "arrange" in names and attr in ("str_join", "list_agg"):
                            kw["arrange"] = [t.k]
                        e = ColFn(op, *args, **kw)
                        if op.ftype == Ftype.AGGREGATE:
                            return t >> pdt.summarize(z=e), str(e.dtype())
                        return t >> pdt.mutate(z=e) >> pdt.select(pdt.C.z), str(e.dtype())

                    out.append((cid, mk))
    # case expressions: the static type joins the branch types; the exported column has it even when every value comes from one branch
    def case_family():
        import pydiverse.transform as pdt

        shapes = {
            "float_then_int_else_only": lambda t: pdt.when(t.i > 1000).then(t.f).otherwise(t.i),
            "int_then_float_else_only": lambda t: pdt.when(t.i > 1000).then(t.i).otherwise(t.f),
            "int_then_only_float_else": lambda t: pdt.when(t.k > 0).then(t.i).otherwise(t.f),
            "float_lit_then_int_lit_else_only": lambda t: pdt.when(t.i > 1000).then(0.5).otherwise(0),
            "int_lit_then_only_float_lit_else": lambda t: pdt.when(t.k > 0).then(1).otherwise(0.5),
            "two_branches_int_float_int": lambda t: pdt.when(t.i > 1000).then(t.i).when(t.i > 2000).then(t.f).otherwise(t.k),
            "narrow_then_wide_else": lambda t: pdt.when(t.k > 2).then(t.j).otherwise(t.i),
            "string_branches": lambda t: pdt.when(t.k > 2).then(t.s).otherwise("x"),
            "bool_branches": lambda t: pdt.when(t.k > 2).then(t.b).otherwise(False),
            "no_default_float": lambda t: pdt.when(t.k > 2).then(t.f),
            "map_int_to_float": lambda t: t.k.map({1: 0.5, 2: 1.5}, default=t.i),
            "map_default_only": lambda t: t.k.map({100: 0.5}, default=t.i),
            # expressions over constants only
            "const_max_int": lambda t: pdt.max(1, 2), "const_min_int": lambda t: pdt.min(3, 2), "const_coalesce_int": lambda t: pdt.coalesce(None, 7),
            "const_coalesce_str": lambda t: pdt.coalesce(None, "x"), "const_fill_null_str": lambda t: pdt.lit(None).fill_null("x"),
            "const_max_float": lambda t: pdt.max(1.5, 2), "const_min_date": lambda t: pdt.min(dt.date(2020, 1, 1), dt.date(2021, 1, 1)),
            "const_arith": lambda t: pdt.lit(1) + 2, "const_case": lambda t: pdt.when(pdt.lit(True)).then(1).otherwise(2),
            "const_max_bool": lambda t: pdt.max(True, False), "typed_const_max": lambda t: pdt.max(pdt.lit(1, pdt.Int64()), pdt.lit(2, pdt.Int64())),
        }
        fam = []
        for name, f in shapes.items():
            def mk(t, f=f):
                e = f(t)
                return t >> pdt.mutate(z=e) >> pdt.select(pdt.C.z), str(e.dtype())

            fam.append((f"case.{name}", mk))

            def mk2(t, f=f):
                e = f(t)
                return t >> pdt.mutate(z=e) >> pdt.filter(t.k == 1) >> pdt.select(pdt.C.z), str(e.dtype())

            fam.append((f"case.{name}.one_row", mk2))
        return fam

    out += case_family()
    return out


def _static_text(dtype_repr: str) -> str:
    """the dtype text used by frontchecks._static_ok (lower-case, as realtypes prints it)"""
    s = dtype_repr.strip()
    const = s.startswith("const ") or s.startswith("Const")
    s = s.replace("const ", "")
    base = s.lower().replace("()", "")
    return ("const " if const else "") + base


def run_grid():
    """records: case, backend, outcome in ok / mismatch / verb_error / export_error / not_supported, static, exported"""
    import pydiverse.transform as pdt

    recs = []
    tabs = tables()
    for cid, mk in cases():
        for be in ("polars", "sqlite"):
            t = tabs[be]()
            rec = dict(case=cid, backend=be)
            try:
                p, static = mk(t)
            except Exception as e:  # noqa: BLE001
                rec.update(outcome="verb_error", exc=type(e).__name__, msg=str(e)[:160])
                recs.append(rec)
                continue
            try:
                df = p >> pdt.export(pdt.Polars())
            except Exception as e:  # noqa: BLE001
                rec.update(outcome="not_supported" if type(e).__name__ in ("NotSupportedError", "SubqueryError") else "export_error",
                           exc=type(e).__name__, msg=str(e)[:160], static=static)
                recs.append(rec)
                continue
            col = df.get_column("z")
            exported = str(col.dtype).split("(")[0] if not str(col.dtype).startswith(("Datetime", "Decimal", "Duration")) else str(col.dtype)
            all_null = col.null_count() == len(col)
            st = _static_text(static)
            ok = _static_ok(st, exported, be == "polars", all_null)
            rec.update(outcome="ok" if ok else "mismatch", static=static, exported=exported, all_null=all_null)
            recs.append(rec)
    return recs


if __name__ == "__main__":
    import collections
    import json
    import sys

    rs = run_grid()
    print(collections.Counter((r["backend"], r["outcome"]) for r in rs))
    for r in rs:
        if r["outcome"] in ("mismatch", "export_error") or "-v" in sys.argv:
            print(json.dumps(r))
