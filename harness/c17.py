"""C17 — casts follow the documented conversion table.

Deciding method: Lean theorems (Pdt/Props/C17.lean): acceptance by `Cast.dtype` equals the
documented table ∪ implicit conversions over the whole type universe (kernel `decide` over the
relation regenerated from the source), rejection happens at construction with DataTypeError,
value lemmas (null, bool→int, int→string canonical, parse round trip).  Tie: the translator
(Gen/Casts), an acceptance correspondence on every universe pair against the real `Cast`
constructor, and the O9 value grid on Polars, SQLite and the model.
"""

from __future__ import annotations

import json
import random
import uuid

from . import common, oracle, realtypes
from . import prog as P
from .c03 import decode_model, lit_json
from .c13 import load_tables, text_to_json, with_const
from .common import Verdict

PROP = "C17"

VALUES_TEMPORAL = {
    "date": [None, {"date": "1970-01-01"}, {"date": "2021-03-04"}, {"date": "1999-12-31"}],
    "datetime": [None, {"datetime": "2021-03-04T00:00:00"}, {"datetime": "2021-03-04T13:14:15"}, {"datetime": "1970-01-01T23:59:59.123456"}],
}
TARGETS_TEMPORAL = {"date": ["datetime", "string"], "datetime": ["date", "string"]}
VALUES = {
    "int64": [None, 0, 1, -1, 7, -65, 1048576, 255, -128],
    "float64": [None, 0.0, 0.5, -0.5, 3.75, -434.375, 10.25, -0.125, 65536.0],
    "bool": [None, True, False],
    "string": [None, "0", "7", "-7", "007", "-007", "+5", "12345", "3.5", "-0.25", "10"],
}
TARGETS = {
    "int64": ["float64", "string", "int32", "int64", "float32", "int8"],
    "float64": ["int64", "int32", "float32", "string"],
    "bool": ["int64", "int8", "float64"],
    "string": ["int64", "float64"],
}


def real_accepts(src_json, tgt_json) -> str:
    from pydiverse.transform._internal.errors import DataTypeError
    from pydiverse.transform._internal.ops.op import Ftype
    from pydiverse.transform._internal.tree.col_expr import Cast, Col

    src = realtypes.dt_from_json(src_json)
    tgt = realtypes.dt_from_json(tgt_json)
    col = Col("x", None, uuid.uuid1(), src, Ftype.ELEMENT_WISE)
    try:
        c = Cast(col, tgt)
        return "ok " + realtypes.dt_text(c.dtype())
    except DataTypeError:
        return "DataTypeError"
    except TypeError:
        return "TypeError"
    except Exception as e:  # noqa: BLE001
        return "internal:" + type(e).__name__


def in_domain(src, tgt, v) -> bool:
    if v is None:
        return True
    if src == "float64" and tgt.startswith("int"):
        return abs(v) < 100 if tgt == "int8" else True
    if src == "int64" and tgt == "int8":
        return -128 <= v <= 127
    if src == "int64" and tgt == "int32":
        return True
    if src == "string" and tgt == "int64":
        return v.lstrip("-").isdigit()          # plain numerals only (section 4.2)
    if src == "string" and tgt == "float64":
        s = v.lstrip("-")
        return s.replace(".", "", 1).isdigit()
    if src == "float64" and tgt == "string":
        return False                             # textual float format is compared separately
    return True


def const_invariance_stream():
    """a cast is compiled the same way for a constant operand and for a column operand: on every dialect the SQL text of
    `lit(v).cast(T)` is the text of `col.cast(T)` with the column reference replaced by the literal's own rendering
    (dialect overrides of compile_cast dispatch on the operand type; a constant operand has type `const T`)"""
    import datetime as dt
    import re

    import pydiverse.transform as pdt

    from . import dialects

    cols = [("i", "int64", pdt.Int64(), 3), ("f", "float64", pdt.Float64(), 1.5), ("s", "string", pdt.String(), "12"), ("b", "bool", pdt.Bool(), True),
            ("d", "date", pdt.Date(), dt.date(2020, 2, 29)), ("t", "datetime", pdt.Datetime(), dt.datetime(2020, 2, 29, 12, 30, 1))]
    targets = [pdt.Int64(), pdt.Int32(), pdt.Float64(), pdt.String(), pdt.Bool(), pdt.Date(), pdt.Datetime()]
    diffs, n = [], 0

    def y_expr(q):
        m = re.search(r"SELECT\s+(.*?)\s+AS\s+y\s+FROM", " ".join(str(q).split()), re.S | re.I)
        return m.group(1) if m else None

    for d in ("sqlite", "postgres", "mssql"):
        eng = dialects.engine(d)
        for cn, dtn, cty, v in cols:
            st = dialects.sqa_table("cst", [("k", "int64"), (cn, dtn)])
            t = pdt.Table(st, pdt.SqlAlchemy(eng))
            try:
                ref_text = y_expr(t >> pdt.mutate(y=t[cn]) >> pdt.select(pdt.C.y) >> pdt.build_query())
                lit_text = y_expr(t >> pdt.mutate(y=pdt.lit(v)) >> pdt.select(pdt.C.y) >> pdt.build_query())
            except Exception:  # noqa: BLE001
                continue
            if not ref_text or not lit_text:
                continue
            for tgt in targets:
                try:
                    ec, el = t[cn].cast(tgt), pdt.lit(v).cast(tgt)
                except Exception:  # noqa: BLE001
                    continue                      # not an accepted cast (acceptance is checked elsewhere)
                outs = []
                for e in (ec, el):
                    try:
                        outs.append(("ok", y_expr(t >> pdt.mutate(y=e) >> pdt.select(pdt.C.y) >> pdt.build_query())))
                    except Exception as ex:  # noqa: BLE001
                        outs.append(("error", type(ex).__name__))
                n += 1
                (kc, xc), (kl, xl) = outs
                if kc != kl:
                    if not (kc == "error" and xc == "NotSupportedError") and not (kl == "error" and xl == "NotSupportedError"):
                        diffs.append(dict(kind="cast_const_vs_column_outcome", src=f"{d}:{cty}", tgt=str(tgt), column=outs[0], constant=outs[1]))
                    continue
                norm = lambda text, operand: re.sub(r"(?<![\w.])" + re.escape(operand) + r"(?![\w.])", "<X>", text)  # noqa: E731
                if kc == "ok" and xc and xl and norm(xc, ref_text) != norm(xl, lit_text):
                    diffs.append(dict(kind="cast_compiled_differently_for_constant", src=f"{d}:{cty}", tgt=str(tgt), column=xc, constant=xl))
    return diffs, n


def representation_stream():
    """the same values stored in different physical representations give the same cast results"""
    import datetime as dt

    import polars as pl
    import pydiverse.transform as pdt
    import sqlalchemy as sqa

    diffs, n = [], 0
    stamps = [dt.datetime(2000, 2, 29, 12, 30, 45, 500000), None, dt.datetime(1970, 1, 1, 0, 0, 0), dt.datetime(2021, 3, 4, 13, 14, 15, 123000)]
    ints = [3, None, -7, 100]
    floats = [1.5, None, -2.25, 0.0]
    ref_df = pl.DataFrame({"k": [1, 2, 3, 4], "t": stamps, "i": ints, "f": floats}, schema={"k": pl.Int64, "t": pl.Datetime("us"), "i": pl.Int64, "f": pl.Float64})
    eng = sqa.create_engine("sqlite://")
    ref_df.write_database("c17repr", eng)
    variants = {
        "t": [pl.Datetime("ms"), pl.Datetime("ns"), pl.Datetime("us")],
        "i": [pl.Int8, pl.Int16, pl.Int32, pl.UInt8 if False else pl.Int64],
        "f": [pl.Float32, pl.Float64],
    }
    casts = {"t": [pdt.String(), pdt.Date(), pdt.Datetime()], "i": [pdt.String(), pdt.Float64(), pdt.Int64(), pdt.Bool()], "f": [pdt.Float64(), pdt.Int64()]}

    def run_cast(tbl, col, target):
        try:
            out = tbl >> pdt.mutate(y=tbl[col].cast(target)) >> pdt.arrange(tbl.k) >> pdt.select(pdt.C.y) >> pdt.export(pdt.Polars())
            return [P.encode_val(x) for x in out.get_column("y").to_list()]
        except Exception as e:  # noqa: BLE001
            return "error:" + type(e).__name__

    for col, phys in variants.items():
        for target in casts[col]:
            ref = run_cast(pdt.Table(ref_df, name="r"), col, target)
            sq = run_cast(pdt.Table("c17repr", pdt.SqlAlchemy(eng)), col, target)
            n += 1
            if isinstance(ref, list) and isinstance(sq, list) and col != "f" and not all(oracle.cell_eq(a, b, tol=1e-6) for a, b in zip(ref, sq)):
                diffs.append(dict(kind="backends_differ", src=f"{col} (canonical frame)", tgt=str(target), polars=ref, sqlite=sq))
            for ph in phys:
                df = ref_df.with_columns(pl.col(col).cast(ph))
                got = run_cast(pdt.Table(df, name="v"), col, target)
                n += 1
                same = isinstance(got, list) and isinstance(ref, list) and all(oracle.cell_eq(a, b, tol=1e-6) for a, b in zip(got, ref))
                if not same and got != ref:
                    diffs.append(dict(kind="cast_depends_on_physical_representation", src=f"{col}:{ph}", tgt=str(target), got=got, canonical=ref))
    # Float-typed *computed* values whose number comes from an integer column or literal (SQLite keeps INTEGER storage unless the
    # compiler casts): the canonical float text - and the float value - must not depend on where the number came from
    computed = {
        "max(i, 0.5)": lambda t: pdt.max(t.i, 0.5), "max(0.5, i)": lambda t: pdt.max(0.5, t.i), "min(i, 2.5)": lambda t: pdt.min(t.i, 2.5),
        "max(i, f)": lambda t: pdt.max(t.i, t.f), "min(f, i)": lambda t: pdt.min(t.f, t.i),
        "i * 1.0": lambda t: t.i * 1.0, "i + 0.5 - 0.5": lambda t: t.i + 0.5 - 0.5, "coalesce(f, i)": lambda t: pdt.coalesce(t.f, t.i),
        "coalesce(i, f)": lambda t: pdt.coalesce(t.i, t.f), "when(i > 0).then(i).otherwise(0.5)": lambda t: pdt.when(t.i > 0).then(t.i).otherwise(0.5),
        "when(i > 0).then(0.5).otherwise(i)": lambda t: pdt.when(t.i > 0).then(0.5).otherwise(t.i),
        "f.fill_null(i)": lambda t: t.f.fill_null(t.i), "i / 1": lambda t: t.i / 1, "i.cast(Float64)": lambda t: t.i.cast(pdt.Float64()),
        "i.mean(partition_by=k)": lambda t: t.i.mean(partition_by=t.k), "i.max(partition_by=k) * 1.0": lambda t: t.i.max(partition_by=t.k) * 1.0,
        "abs(i * 1.0)": lambda t: (t.i * 1.0).abs(), "floor(i + 0.5)": lambda t: (t.i + 0.5).floor(),
    }
    for name, f in computed.items():
        for target in (pdt.String(), pdt.Int64(), pdt.Float64()):
            outs = {}
            for be in ("polars", "sqlite"):
                t = pdt.Table(ref_df, name="r") if be == "polars" else pdt.Table("c17repr", pdt.SqlAlchemy(eng))
                try:
                    o = t >> pdt.mutate(y=f(t)) >> pdt.mutate(z=pdt.C.y.cast(target)) >> pdt.arrange(t.k) >> pdt.select(pdt.C.z) >> pdt.export(pdt.Polars())
                    outs[be] = [P.encode_val(x) for x in o.get_column("z").to_list()]
                except Exception as e:  # noqa: BLE001
                    outs[be] = "error:" + type(e).__name__
            n += 1
            a, b = outs["polars"], outs["sqlite"]
            if not (isinstance(a, list) and isinstance(b, list) and len(a) == len(b) and all(oracle.cell_eq(x, y, tol=1e-9) for x, y in zip(a, b))):
                diffs.append(dict(kind="backends_differ", src=f"computed {name}", tgt=str(target), polars=a, sqlite=b))
    # float → string at the ends of the double range: the text of a *finite* value is a numeral that reads back as that value, and only an
    # infinite value is spelled 'inf' / '-inf' (the SQL dialects spell infinity through a comparison with a large constant — that constant
    # must not be a value a column can hold)
    import math
    ext = [1e308, -1e308, 1.5e308, -1.5e308, 1e300, 9.9e307, float("inf"), float("-inf"), None, 1e-308, 1.25]
    ext_df = pl.DataFrame({"k": list(range(len(ext))), "f": ext}, schema={"k": pl.Int64, "f": pl.Float64})
    ext_df.write_database("c17ext", eng)
    for be in ("polars", "sqlite"):
        t = pdt.Table(ext_df, name="e") if be == "polars" else pdt.Table("c17ext", pdt.SqlAlchemy(eng))
        try:
            o = (t >> pdt.mutate(y=t.f.cast(pdt.String())) >> pdt.mutate(z=pdt.C.y.cast(pdt.Float64())) >> pdt.arrange(t.k)
                 >> pdt.select(pdt.C.y, pdt.C.z) >> pdt.export(pdt.Polars()))
            ys, zs = o.get_column("y").to_list(), o.get_column("z").to_list()
        except Exception as e:  # noqa: BLE001
            diffs.append(dict(kind="extreme_float_text", backend=be, error=type(e).__name__ + ": " + str(e)[:200]))
            continue
        for v, y, z in zip(ext, ys, zs):
            n += 1
            if v is None:
                ok = y is None and z is None
            elif math.isinf(v):
                ok = y == ("inf" if v > 0 else "-inf") and z == v
            else:
                ok = isinstance(y, str) and "inf" not in y.lower() and "nan" not in y.lower() and z is not None and math.isfinite(z) and abs(z - v) <= 1e-12 * abs(v)
            if not ok:
                diffs.append(dict(kind="extreme_float_text", backend=be, src=f"float64 {v!r}", tgt="string", text=y, read_back=P.encode_val(z)))
    return diffs, n


def run(tier: str, seed: int) -> int:
    v = Verdict(PROP, tier, seed)
    rng = random.Random(seed)
    po = common.proof_obligations(PROP)
    tables = load_tables()
    base = [text_to_json(t) for t in tables["types"]["universe"]]
    # ---- acceptance: every (source, target) pair, column and constant sources
    reqs = []
    for s in base:
        for t in base:
            reqs.append((s, t))
            reqs.append((with_const(s), t))
    real = [real_accepts(s, t) for s, t in reqs]
    corr = []
    n_acc = sum(1 for r in real if r.startswith("ok"))
    if po["build"]["ok"]:
        dreqs = [dict(cmd="cast_type", src=s, tgt=t) for s, t in reqs]
        model = common.run_driver(dreqs)
        for (s, t), r, m in zip(reqs, real, model):
            if r != m:
                corr.append(dict(kind="acceptance", src=s, tgt=t, real=r, model=m))
    internal = [dict(kind="internal_error_at_construction", src=s, tgt=t, real=r) for (s, t), r in zip(reqs, real) if r.startswith("internal")]

    # ---- values on both backends and the model
    diffs = []
    n_eval = 0
    samples = []
    mreqs, mmeta = [], []
    all_targets = [(s_, t_, False) for s_, ts in TARGETS.items() for t_ in ts] + \
                  [(s_, t_, False) for s_, ts in TARGETS_TEMPORAL.items() for t_ in ts]
    # the same casts applied to a *constant* operand (literal), one program per value
    const_cases = []
    for s_, t_, _ in list(all_targets):
        pool = dict(VALUES, **VALUES_TEMPORAL)[s_]
        for x in [x for x in pool if x is not None and in_domain(s_, t_, x)][:2]:
            const_cases.append((s_, t_, x))
    for src, tgt, x in const_cases:
        prog = dict(
            tables=[dict(name="g", cols=[dict(name="id", dtype="int64", vals=[1, 2])])],
            stmts=[dict(id="t0", op="source", table="g"),
                   dict(id="t1", op="mutate", src="t0", cols=[["y", {"cast": {"lit": x}, "to": tgt}]]),
                   dict(id="x", op="export", src="t1", ordered=False)])
        outs = {}
        for be in ("polars", "sqlite"):
            obs = P.run_program(prog, be, observe_cache=False)
            ex = obs[-1]
            if ex["outcome"] != "ok":
                err = next((o for o in obs if o["outcome"] == "error"), ex)
                diffs.append(dict(kind="execution_error", backend=be, src="const " + src, tgt=tgt, value=x, exc=err.get("exc"), msg=err.get("msg")))
            else:
                outs[be] = [r[ex["frame"]["names"].index("y")] for r in ex["frame"]["rows"]]
        if len(outs) == 2:
            n_eval += 1
            if not all(oracle.cell_eq(a, b, tol=1e-6) for a, b in zip(outs["polars"], outs["sqlite"])):
                diffs.append(dict(kind="backends_differ", src="const " + src, tgt=tgt, value=x, polars=outs["polars"], sqlite=outs["sqlite"]))
    for src, tgt, _ in all_targets:
        if True:
            vals = [x for x in dict(VALUES, **VALUES_TEMPORAL)[src] if in_domain(src, tgt, x)]
            prog = dict(
                tables=[dict(name="g", cols=[dict(name="id", dtype="int64", vals=list(range(len(vals)))), dict(name="x", dtype=src, vals=vals)])],
                stmts=[dict(id="t0", op="source", table="g"),
                       dict(id="t1", op="mutate", src="t0", cols=[["y", {"cast": {"col": ["t0", "x"]}, "to": tgt}]]),
                       dict(id="t2", op="arrange", src="t1", by=[{"c": "id"}]),
                       dict(id="x", op="export", src="t2", ordered=True)])
            outs = {}
            for be in ("polars", "sqlite"):
                obs = P.run_program(prog, be, observe_cache=False)
                ex = obs[-1]
                if ex["outcome"] != "ok":
                    err = next((o for o in obs if o["outcome"] == "error"), ex)
                    diffs.append(dict(kind="execution_error", backend=be, src=src, tgt=tgt, exc=err.get("exc"), msg=err.get("msg")))
                    outs[be] = None
                else:
                    yi = ex["frame"]["names"].index("y")
                    outs[be] = [r[yi] for r in ex["frame"]["rows"]]
            if outs.get("polars") is not None and outs.get("sqlite") is not None:
                for x, a, b in zip(vals, outs["polars"], outs["sqlite"]):
                    n_eval += 1
                    if not oracle.cell_eq(a, b, tol=1e-6 if tgt == "float32" else 1e-9):
                        diffs.append(dict(kind="backends_differ", src=src, tgt=tgt, value=x, polars=a, sqlite=b))
            if outs.get("polars") is not None and src in VALUES and not (src == "string" and tgt.startswith("float")):   # string → float parsing is not modelled
                for x, a in zip(vals, outs["polars"]):
                    mreqs.append(dict(cmd="cast", arg=lit_json(x), to=tgt))
                    mmeta.append((src, tgt, x, a))
            samples.append(dict(src=src, tgt=tgt, values=vals[:5], polars=(outs.get("polars") or [])[:5]))
    if po["build"]["ok"] and mreqs:
        mo = [decode_model(s) for s in common.run_driver(mreqs)]
        for (src, tgt, x, a), m in zip(mmeta, mo):
            if not oracle.cell_eq(a, m, tol=1e-6 if tgt == "float32" else 1e-9):
                corr.append(dict(kind="value", src=src, tgt=tgt, value=x, polars=a, model=m))

    acc_viol = []
    if po["ok"]:
        # the model's acceptance is *proved* equal to the documented table (cast_acceptance); a pair on which
        # the real constructor deviates from the model is therefore a concrete failing input
        acc_viol = [dict(c, kind="acceptance_differs_from_documented_table") for c in corr if c["kind"] == "acceptance"]
        corr = [c for c in corr if c["kind"] != "acceptance"]
    # ---- source frames in other physical representations: the result of a cast does not depend on how the Polars
    #      frame stores the value (Datetime in ms / us / ns, sized ints and floats), and agrees with SQLite
    repr_diffs, n_repr = representation_stream()
    diffs += repr_diffs
    ci_diffs, n_ci = const_invariance_stream()
    diffs += ci_diffs
    n_repr += n_ci
    new = internal + diffs + acc_viol
    groups = {}
    for d in new:
        groups.setdefault((d["kind"], str(d.get("src")), str(d.get("tgt"))), []).append(d)
    for key, items in list(groups.items())[:8]:
        v.violation("-".join(key).replace(" ", "")[:60], dict(kind=key[0], n_cases=len(items), cases=items[:8]))
    broken = []
    if not po["ok"]:
        broken.append(dict(kind="proof", errors=po["build"].get("errors"), bad_axioms=po.get("bad_axioms"), forbidden=po.get("forbidden_hits"),
                           missing=po["audit"].get("missing"), tail=po["build"].get("tail", "")[-2000:]))
    if corr:
        broken.append(dict(kind="correspondence", n=len(corr), first=corr[:10]))
    if broken and not new:
        v.violation("unproved", dict(what="a proof obligation or the cast correspondence of C17 no longer checks and no failing cast was "
                                          "found on the real code", broken=broken, theorems=po.get("theorems")), no_input=True)
    v.coverage = dict(
        obligations=po["obligations"], discharged=po["discharged"],
        checker_cmd="cd lean && lake build Pdt.Props.C17 && lake env lean ../out/audit/Pdt_Props_C17.lean",
        trusted_base=common.TRUSTED_BASE, theorems=po["theorems"], axioms=po["audit"].get("axioms"), proof_ok=po["ok"],
        programs=len(reqs) + len(samples), disagreements_checked=len(corr), evaluations=len(reqs) + n_eval + n_repr,
        distinct_nontrivial=n_acc,
        rule="acceptance: every (source, target) pair over the 29-type universe with column and constant sources against the real Cast "
             "constructor and the model (non-trivial = accepted pair); values: boundary values per accepted pair of the executable types on "
             "Polars, SQLite and the model",
        exhaustive=True, samples=samples[:6], accepted_pairs=n_acc,
    )
    v.assumptions = ["float → string text and string → float parsing are compared between the backends only for plain numerals; float value "
                     "clauses are not proved (Lean's Float is opaque)",
                     "date / datetime casts are checked for acceptance; their values are outside the executable model"]
    return v.finish("proof")
