"""C01 — Polars and SQL backends return the same table for the same pipeline.

Deciding method: Lean model of the SQL compiler (Pdt/Model/Sql.lean: verbs folded into one SELECT,
subquery at markers, alias re-keying) and the reference semantics (Spec.lean); theorems in
Pdt/Props/C01.lean; both are tied to the code by comparing real Polars and real SQLite frames with
each other (the property itself), with Spec.run and with Sql.run on every generated program."""
from . import speccheck

PROP = "C01"


def run(tier, seed):
    return speccheck.run(PROP, tier, seed, ["general", "rowlevel", "agg", "window", "join", "subquery", "union", "slices", "tall", "scen_window_nulls", "scen_join_hidden", "scen_selfjoin_agg", "scen_join_suffix", "scen_rename_hidden", "scen_union_const", "scen_union_distinct", "scen_const_key", "scen_join_all", "scen_subq_group", "scen_union_agg_right", "scen_subq_hidden", "scen_summarize_key"], 400, 20000, also=("C08",),
                         assumptions=["values restricted to the domain of DESIGN.md section 4"])
