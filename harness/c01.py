"""C01 — Polars and SQL backends return the same table for the same pipeline.

Deciding method: Lean model of the SQL compiler (Pdt/Model/Sql.lean: verbs folded into one SELECT,
subquery at markers, alias re-keying) and the reference semantics (Spec.lean); theorems in
Pdt/Props/C01.lean; both are tied to the code by comparing real Polars and real SQLite frames with
each other (the property itself), with Spec.run and with Sql.run on every generated program."""
from . import speccheck

PROP = "C01"


def temporal_pipelines(v, findings):
    """pipelines over date / datetime columns (outside the generated value domain): component functions as values, as filter
    predicates and as grouping keys give the same table on Polars and on SQLite (sub-second parts excepted: the library warns
    that SQLite rounds them)"""
    import datetime as dt

    import polars as pl
    import pydiverse.transform as pdt
    import sqlalchemy as sqa

    from . import oracle
    from . import prog as P

    base = dt.date(2023, 12, 25)
    dates = [base + dt.timedelta(days=i) for i in range(14)] + [dt.date(2020, 2, 29), dt.date(2000, 3, 1), dt.date(1999, 12, 31), None]
    stamps = [dt.datetime(d.year, d.month, d.day, (7 * i) % 24, (13 * i) % 60, (17 * i) % 60) if d is not None else None for i, d in enumerate(dates)]
    df = pl.DataFrame({"k": list(range(len(dates))), "d": dates, "t": stamps, "x": [i % 5 for i in range(len(dates))]},
                      schema={"k": pl.Int64, "d": pl.Date, "t": pl.Datetime("us"), "x": pl.Int64})
    eng = sqa.create_engine("sqlite://")
    df.write_database("c01temporal", eng)
    fns = ["year", "month", "day", "day_of_week", "day_of_year", "hour", "minute", "second"]
    bad, n = {}, 0
    for col in ("d", "t"):
        for fname in fns:
            if col == "d" and fname in ("hour", "minute", "second"):
                continue
            shapes = {
                "value": lambda t, e: t >> pdt.mutate(y=e) >> pdt.arrange(t.k) >> pdt.select(t.k, pdt.C.y),
                "filter": lambda t, e: t >> pdt.filter(e >= 6) >> pdt.arrange(t.k) >> pdt.select(t.k),
                "group": lambda t, e: t >> pdt.mutate(y=e) >> pdt.group_by(pdt.C.y) >> pdt.summarize(n=pdt.count(), s=t.x.sum()) >> pdt.arrange(pdt.C.y.nulls_first()),
                "window": lambda t, e: t >> pdt.mutate(r=t.x.sum(partition_by=e)) >> pdt.arrange(t.k) >> pdt.select(t.k, pdt.C.r),
            }
            for sname, build in shapes.items():
                frames = {}
                for be in ("polars", "sqlite"):
                    t = pdt.Table(df, name="c01temporal") if be == "polars" else pdt.Table("c01temporal", pdt.SqlAlchemy(eng))
                    try:
                        out = build(t, getattr(t[col].dt, fname)()) >> pdt.export(pdt.Polars())
                        frames[be] = dict(names=out.columns, rows=[[P.encode_val(x) for x in row] for row in out.rows()])
                    except Exception as e:  # noqa: BLE001
                        frames[be] = "error:" + type(e).__name__ + ":" + str(e)[:120]
                n += 1
                a, b = frames["polars"], frames["sqlite"]
                d = (f"{a} vs {b}"[:300] if isinstance(a, str) or isinstance(b, str) else oracle.compare_frames(a, b, True))
                if d:
                    bad.setdefault((fname, sname), []).append(dict(column=col, detail=d))
    for key, items in bad.items():
        v.violation("temporal-" + "-".join(key), dict(kind="temporal_pipeline_differs", fn="dt_" + key[0], shape=key[1], cases=items[:4], how="harness/c01.py:temporal_pipelines"))
    return len(bad), dict(temporal_pipelines=n)


def run(tier, seed):
    return speccheck.run(PROP, tier, seed, ["general", "rowlevel", "agg", "window", "join", "subquery", "union", "slices", "tall", "scen_window_nulls", "scen_join_hidden", "scen_selfjoin_agg", "scen_join_suffix", "scen_rename_hidden", "scen_union_const", "scen_union_distinct", "scen_const_key", "scen_join_all", "scen_subq_group", "scen_union_agg_right", "scen_subq_hidden", "scen_summarize_key", "scen_window_cast_join"], 400, 20000, also=("C08",), extra_stream=temporal_pipelines,
                         assumptions=["values restricted to the domain of DESIGN.md section 4"])
