"""C02 — single-table row-level verbs compute their documented meaning.

Deciding method: Lean theorems about the reference semantics of the row-level verbs
(Pdt/Props/C02.lean) — the Spec *is* the documented meaning, stated verb by verb without reference to
a backend — tied to the code by running every generated row-level program on Polars and SQLite and
comparing the exported frame with the frame the Lean Spec computes (independent row-by-row
evaluation), plus the front-end and SQL-model correspondences.
"""
from . import speccheck

PROP = "C02"


def run(tier, seed):
    return speccheck.run(PROP, tier, seed, ["rowlevel", "slices", "general", "scen_subq_hidden", "scen_rename_hidden", "rowlevel", "window", "scen_empty_args", "subquery", "scen_alias_below_limit"], 300, 10000, also=("C01",),
                         assumptions=["the refinement of each backend's compilation to the Spec is established by comparison on generated programs "
                                      "(both backends vs the Lean evaluator); a Lean refinement proof exists for the fragment stated in Props/C01",
                                      "operators outside the modelled set (front.MODEL_OPS) exclude a program from the Spec comparison"])
