"""Shared machinery of the checks: paths, table regeneration, Lean build + axiom audit,
driver invocation, findings file, evidence and verdict output."""

from __future__ import annotations

import hashlib
import json
import os
import re
import subprocess
import sys
import time

VERIF = os.path.dirname(os.path.dirname(os.path.abspath(__file__)))
REPO = os.environ.get("PDT_REPO", "/repo")
LEAN_DIR = os.path.join(VERIF, "lean")
OUT = os.path.join(VERIF, "out")
PY = "/venv/bin/python"
ALLOWED_AXIOMS = {"propext", "Classical.choice", "Quot.sound"}
DRIVER = os.path.join(LEAN_DIR, ".lake/build/bin/pdt_driver")

os.makedirs(OUT, exist_ok=True)


def seed_from_env() -> int:
    try:
        return int(os.environ.get("VERIF_SEED", "0"))
    except ValueError:
        return 0


def tier_from_env(default="quick") -> str:
    t = os.environ.get("VERIF_TIER", default)
    return t if t in ("quick", "thorough") else default


def repo_src_hash() -> str:
    h = hashlib.sha256()
    for root in ("src", "docs/source"):
        base = os.path.join(REPO, root)
        for dp, dn, fn in sorted(os.walk(base)):
            dn.sort()
            if "__pycache__" in dp:
                continue
            for f in sorted(fn):
                if f.endswith((".py", ".md")):
                    p = os.path.join(dp, f)
                    h.update(p.encode())
                    with open(p, "rb") as fh:
                        h.update(fh.read())
    return h.hexdigest()


# ------------------------------------------------------------------ tables + lean build


def regen_tables() -> dict:
    r = subprocess.run([PY, os.path.join(VERIF, "harness/gen_tables.py")], capture_output=True, text=True)
    if r.returncode != 0:
        return dict(ok=False, error=(r.stderr or r.stdout)[-4000:])
    try:
        info = json.loads(r.stdout.strip().splitlines()[-1])
    except Exception:
        info = {}
    info["ok"] = True
    return info


def lake_build(targets: list[str], timeout=3600) -> dict:
    t0 = time.time()
    r = subprocess.run(["lake", "build", *targets], cwd=LEAN_DIR, capture_output=True, text=True, timeout=timeout)
    out = r.stdout + r.stderr
    failed = re.findall(r"^- (\S+)$", out, flags=re.M)
    errs = [l for l in out.splitlines() if "error:" in l][:40]
    return dict(ok=r.returncode == 0, wall_s=round(time.time() - t0, 2), failed_targets=failed, errors=errs,
                tail=out[-6000:] if r.returncode != 0 else "")


FORBIDDEN = re.compile(r"\bsorry\b|\badmit\b|^\s*axiom\s|native_decide|bv_decide|implemented_by|\bunsafe\s|maxHeartbeats\s+0")


def strip_comments(src: str) -> str:
    # remove block comments (nested-insensitive but adequate) and line comments
    src = re.sub(r"/-.*?-/", lambda m: "\n" * m.group(0).count("\n"), src, flags=re.S)
    src = re.sub(r"--.*", "", src)
    return src


def grep_forbidden(files: list[str]) -> list[str]:
    hits = []
    for f in files:
        try:
            src = strip_comments(open(f).read())
        except OSError:
            continue
        for i, line in enumerate(src.splitlines(), 1):
            if FORBIDDEN.search(line):
                hits.append(f"{os.path.relpath(f, VERIF)}:{i}: {line.strip()[:120]}")
    return hits


def theorem_names(lean_file: str) -> list[str]:
    """Names of theorems declared in a Props file (with their namespace)."""
    src = strip_comments(open(lean_file).read())
    ns = []
    names = []
    for line in src.splitlines():
        m = re.match(r"\s*namespace\s+(\S+)", line)
        if m:
            ns.append(m.group(1))
            continue
        m = re.match(r"\s*end\s+(\S+)", line)
        if m and ns and ns[-1] == m.group(1):
            ns.pop()
            continue
        m = re.match(r"\s*(?:private\s+|protected\s+)?theorem\s+([^\s:({\[]+)", line)
        if m:
            names.append(".".join(ns + [m.group(1)]))
    return names


def audit_axioms(module: str, thms: list[str], also_import: list[str] | None = None) -> dict:
    """`#print axioms` on every theorem; returns name -> list of axioms (None if lean failed)."""
    os.makedirs(os.path.join(OUT, "audit"), exist_ok=True)
    path = os.path.join(OUT, "audit", module.replace(".", "_") + ".lean")
    with open(path, "w") as f:
        f.write(f"import {module}\n")
        for m in also_import or []:
            f.write(f"import {m}\n")
        for t in thms:
            f.write(f"#print axioms {t}\n")
    r = subprocess.run(["lake", "env", "lean", path], cwd=LEAN_DIR, capture_output=True, text=True, timeout=1800)
    out = r.stdout + r.stderr
    res = {}
    for m in re.finditer(r"'([^']+)' depends on axioms: \[([^\]]*)\]", out, flags=re.S):
        res[m.group(1)] = [a.strip() for a in m.group(2).replace("\n", " ").split(",") if a.strip()]
    for m in re.finditer(r"'([^']+)' does not depend on any axioms", out):
        res[m.group(1)] = []
    missing = [t for t in thms if t not in res]
    return dict(ok=r.returncode == 0 and not missing, axioms=res, missing=missing, raw_tail=out[-3000:] if missing or r.returncode else "")


CURRENT_TIER = None
LAST_LEANCHECKER = None

# theorem modules that belong to a property besides Pdt/Props/<prop>.lean (built, grepped and audited with it)
EXTRA_MODULES = {
    "C01": ["Pdt.Props.C01Frag", "Pdt.Props.C01Ord", "Pdt.Props.C01Agg", "Pdt.Props.C01Group", "Pdt.Props.C01Gen", "Pdt.Props.C01Window", "Pdt.Props.Lemmas.InlineUnits", "Pdt.Props.Lemmas.Inline", "Pdt.Props.Lemmas.Rows", "Pdt.Props.Lemmas.Pointwise"],
    "C11": ["Pdt.Props.C11Frag"],
    "C08": ["Pdt.Props.C08Simple", "Pdt.Props.C08Sql"],
    "C09": ["Pdt.Props.C09Scope"],
    "C05": ["Pdt.Props.Lemmas.Sort", "Pdt.Props.Lemmas.Partition", "Pdt.Props.Lemmas.KeyOrder", "Pdt.Props.C01Window"],
    "C04": ["Pdt.Props.Lemmas.Partition", "Pdt.Props.C04Filter"],
    "C07": ["Pdt.Props.C07Sql"],
    "C06": ["Pdt.Props.C06Sql"],
    "C15": ["Pdt.Props.C15Extra", "Pdt.Props.C15Sql", "Pdt.Props.C15Base"],
}


def proof_obligations(prop: str, extra_modules: list[str] | None = None, driver=True) -> dict:
    """Regenerate tables, build the property's theorem module (+ driver), audit axioms."""
    t0 = time.time()
    res = dict(property=prop)
    res["tables"] = regen_tables()
    module = f"Pdt.Props.{prop}"
    lean_file = os.path.join(LEAN_DIR, "Pdt/Props", f"{prop}.lean")
    extra_modules = list(extra_modules or []) + EXTRA_MODULES.get(prop, [])
    targets = [module] + extra_modules + (["pdt_driver"] if driver else [])
    res["build"] = lake_build(targets) if res["tables"]["ok"] else dict(ok=False, errors=["table generation failed"], failed_targets=[], tail=res["tables"].get("error", ""))
    thms = theorem_names(lean_file) if os.path.exists(lean_file) else []
    for m in extra_modules:
        f = os.path.join(LEAN_DIR, m.replace(".", "/") + ".lean")
        if os.path.exists(f):
            thms += [t for t in theorem_names(f) if t not in thms]
    res["theorems"] = thms
    lean_sources = []
    for dp, dn, fn in os.walk(os.path.join(LEAN_DIR, "Pdt")):
        for f in fn:
            if f.endswith(".lean"):
                lean_sources.append(os.path.join(dp, f))
    res["forbidden_hits"] = grep_forbidden(lean_sources)
    if res["build"]["ok"]:
        res["audit"] = audit_axioms(module, thms, also_import=extra_modules)
        bad = {t: ax for t, ax in res["audit"]["axioms"].items() if set(ax) - ALLOWED_AXIOMS}
        res["bad_axioms"] = bad
        res["discharged"] = len([t for t in thms if t in res["audit"]["axioms"] and t not in bad])
    else:
        res["audit"] = dict(ok=False, axioms={}, missing=thms)
        res["bad_axioms"] = {}
        res["discharged"] = 0
    res["obligations"] = len(thms)
    res["ok"] = bool(res["build"]["ok"] and res["audit"]["ok"] and not res["bad_axioms"] and not res["forbidden_hits"] and thms)
    if CURRENT_TIER == "thorough" and res["build"]["ok"]:
        # independent re-check of the compiled theorem module by the toolchain's leanchecker
        t1 = time.time()
        try:
            r = subprocess.run(["lake", "env", "leanchecker", module], cwd=LEAN_DIR, capture_output=True, text=True, timeout=2400)
            # killed by a signal (memory: the re-check of the C13 chunks needs ~30 GB) is inconclusive, not a rejection
            res["leanchecker"] = dict(ok=(r.returncode == 0) if r.returncode >= 0 else None, seconds=round(time.time() - t1, 1),
                                      tail=(r.stdout + r.stderr)[-400:], returncode=r.returncode)
        except subprocess.TimeoutExpired:
            res["leanchecker"] = dict(ok=None, seconds=round(time.time() - t1, 1), tail="timeout (inconclusive)")
        except Exception as e:  # noqa: BLE001
            res["leanchecker"] = dict(ok=None, seconds=round(time.time() - t1, 1), tail=str(e)[-400:])
        global LAST_LEANCHECKER
        LAST_LEANCHECKER = res["leanchecker"]
        if res["leanchecker"]["ok"] is False:
            res["ok"] = False
            res["build"].setdefault("errors", []).append("leanchecker rejected " + module)
    res["wall_s"] = round(time.time() - t0, 2)
    return res


# ------------------------------------------------------------------ driver


def _run_driver_once(requests: list[dict], timeout) -> list[str]:
    inp = "\n".join(json.dumps(r, ensure_ascii=False) for r in requests) + "\n"
    r = subprocess.run([DRIVER], input=inp, capture_output=True, text=True, timeout=timeout)
    if r.returncode != 0:
        raise RuntimeError(f"driver failed rc={r.returncode}: {r.stderr[-2000:]}")
    lines = r.stdout.split("\n")
    if lines and lines[-1] == "":
        lines.pop()
    if len(lines) != len(requests):
        raise RuntimeError(f"driver answered {len(lines)} lines for {len(requests)} requests")
    return lines


def run_driver(requests: list[dict], timeout=1800) -> list[str]:
    """the requests go through the compiled Lean driver; the driver is stateless per line, so large batches are split
    over several driver processes (answers keep the order of the requests)"""
    if len(requests) <= 1500:
        return _run_driver_once(requests, timeout)
    from concurrent.futures import ThreadPoolExecutor

    workers = min(14, os.cpu_count() or 4)
    size = max(200, -(-len(requests) // (workers * 4)))
    chunks = [requests[i:i + size] for i in range(0, len(requests), size)]
    with ThreadPoolExecutor(max_workers=workers) as ex:
        parts = list(ex.map(lambda c: _run_driver_once(c, timeout), chunks))
    return [line for part in parts for line in part]


# ------------------------------------------------------------------ findings


def load_findings() -> dict:
    p = os.path.join(VERIF, "known_findings.json")
    if not os.path.exists(p):
        return dict(findings=[], fixed=[])
    return json.load(open(p))


def findings_for(prop: str, also: tuple = ()) -> list[dict]:
    """findings recorded for `prop` (and for the properties whose oracle the check shares)"""
    props = {prop, *also}
    return [f for f in load_findings().get("findings", []) if props & set(f.get("properties", []))]


# ------------------------------------------------------------------ verdict + evidence


class Verdict:
    def __init__(self, prop: str, tier: str, seed: int):
        self.prop = prop
        self.tier = tier
        self.seed = seed
        self.t0 = time.time()
        self.violations: list[dict] = []
        self.known: list[str] = []
        self.coverage: dict = {}
        self.assumptions: list[str] = []

    def replay_path(self, tag: str) -> str:
        d = os.path.join(OUT, "replay", self.prop)
        os.makedirs(d, exist_ok=True)
        return os.path.join(d, f"{tag}.json")

    def violation(self, tag: str, payload: dict, no_input=False):
        h = hashlib.sha256(json.dumps(payload, sort_keys=True, default=str).encode()).hexdigest()[:12]
        path = self.replay_path(f"{tag}-{h}")
        payload = dict(payload, property=self.prop, seed=self.seed, tier=self.tier)
        with open(path, "w") as f:
            json.dump(payload, f, indent=1, default=str, ensure_ascii=False)
        self.violations.append(dict(path=path, no_input=no_input, tag=tag))

    def known_finding(self, text: str):
        if text not in self.known:
            self.known.append(text)

    def finish(self, level="proof") -> int:
        wall = round(time.time() - self.t0, 2)
        if LAST_LEANCHECKER is not None and isinstance(self.coverage, dict):
            self.coverage["leanchecker"] = LAST_LEANCHECKER
        ev = dict(
            property_id=self.prop,
            tier=self.tier,
            seed=self.seed,
            level=level,
            coverage=self.coverage,
            assumptions=self.assumptions,
            wall_s=wall,
            violations=len(self.violations),
        )
        os.makedirs(os.path.join(VERIF, "evidence"), exist_ok=True)
        with open(os.path.join(VERIF, "evidence", f"{self.prop}.json"), "w") as f:
            json.dump(ev, f, indent=1, default=str, ensure_ascii=False)
        for k in self.known:
            print(f"KNOWN-FINDING: property={self.prop} {k}")
        seen = set()
        for v in self.violations[:20]:
            if v["path"] in seen:
                continue
            seen.add(v["path"])
            rel = os.path.relpath(v["path"], VERIF)
            print(f"VIOLATION property={self.prop} replay={rel}" + (" no-failing-input-found" if v["no_input"] else ""))
        sys.stdout.flush()
        return 1 if self.violations else 0


TRUSTED_BASE = [
    "Lean 4.33.0 kernel; axioms allowed: propext, Classical.choice, Quot.sound (audited per theorem with #print axioms on every run)",
    "harness/gen_tables.py (translator of the source's tables into Lean data)",
    "correspondence harness (Python) and its canonicalisation of observations",
    "modelled, not verified: Polars / SQLite / SQLAlchemy engine behaviour, Python object model, pydiverse.common dtype mappings",
]
