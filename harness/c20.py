"""C20 — all export targets describe the same table.

Deciding method: Lean theorems (Pdt/Props/C20.lean) that the target encodings carry exactly the
frame's names, order and values (dictOfLists_roundtrip, listOfDicts_roundtrip, dict / scalar
definedness); tie: the model's encodings are compared with the real targets for every exported
frame; oracle: every target, lazy vs eager, Pandas, `ColExpr.export` and re-import agree with
`export(Polars())` on generated programs (incl. empty results, null-only columns, single cells).
"""

from __future__ import annotations

import json
import random
import warnings

from . import campaign, common, oracle
from . import prog as P
from .c03 import decode_model, lit_json
from .common import Verdict

PROP = "C20"


def _targets_one(env: P.Env, t, base: dict, ordered: bool, backend: str) -> list[dict]:
    import polars as pl
    import pydiverse.transform as pdt

    diffs = []

    def cmp(name, got, check_names=True):
        d = oracle.compare_frames(base, got, ordered=ordered, check_names=check_names) if got["names"] is not None or not check_names else None
        if d:
            diffs.append(dict(kind="target_differs", target=name, detail=d))

    # the exported frame carries the table's own names in the table's own order (what every other target is compared with)
    try:
        own = list(t >> pdt.columns())
        if list(base["names"]) != own:
            diffs.append(dict(kind="target_differs", target="polars", detail=f"names / order: exported {list(base['names'])} vs columns() {own}"))
    except Exception as e:  # noqa: BLE001
        diffs.append(dict(kind="target_error", target="columns", exc=P.exc_class(e), msg=str(e)[:150]))
    for tgt in ("polars_lazy", "pandas", "dict_of_lists", "list_of_dicts"):
        if tgt == "pandas" and backend != "polars":
            continue        # D56: SQL backends implement the Polars target only (NotImplementedError)
        try:
            got = P.export_obs(t, tgt)
        except Exception as e:  # noqa: BLE001
            diffs.append(dict(kind="target_error", target=tgt, exc=P.exc_class(e), msg=str(e)[:150]))
            continue
        if tgt == "list_of_dicts" and got["names"] is None:
            if base["rows"]:
                diffs.append(dict(kind="target_differs", target=tgt, detail="no rows returned"))
            continue
        if tgt == "dict_of_lists" and not base["names"]:
            continue
        cmp(tgt, got)
    nrows, ncols = len(base["rows"]), len(base["names"])
    # Dict / Scalar: defined exactly under their shape conditions, TypeError otherwise
    for tgt, ok_shape in (("dict", nrows == 1), ("scalar", nrows == 1 and ncols == 1)):
        try:
            got = P.export_obs(t, tgt)
            if not ok_shape:
                diffs.append(dict(kind="target_should_refuse", target=tgt, shape=[nrows, ncols]))
            elif tgt == "dict":
                cmp(tgt, got)
            else:
                if not oracle.cell_eq(got["rows"][0][0], base["rows"][0][0]):
                    diffs.append(dict(kind="target_differs", target=tgt, detail=f"{got['rows'][0][0]!r} vs {base['rows'][0][0]!r}"))
        except TypeError:
            if ok_shape:
                diffs.append(dict(kind="target_error", target=tgt, exc="TypeError", msg="refused although the shape condition holds"))
        except Exception as e:  # noqa: BLE001
            diffs.append(dict(kind="target_error", target=tgt, exc=P.exc_class(e), msg=str(e)[:150]))
    # expression export: every visible column, and one derived expression
    try:
        # … the column objects obtained by iterating the table are the table's columns, like `t[name]`
        for col in list(t)[:3]:
            name = col.name
            s = col.export(pdt.Polars())
            vals = [P.encode_val(x) for x in s.to_list()]
            exp = [r[base["names"].index(name)] for r in base["rows"]]
            if not ordered:
                vals, exp = sorted(vals, key=lambda x: oracle.sort_key([x])), sorted(exp, key=lambda x: oracle.sort_key([x]))
            if len(vals) != len(exp) or not all(oracle.cell_eq(a, b) for a, b in zip(vals, exp)):
                diffs.append(dict(kind="colexpr_export_differs", column=name, via="iteration", got=vals[:6], expected=exp[:6]))
        for name in base["names"][:3]:
            s = t[name].export(pdt.Polars())
            vals = [P.encode_val(x) for x in s.to_list()]
            exp = [r[base["names"].index(name)] for r in base["rows"]]
            if not ordered:
                vals, exp = sorted(vals, key=lambda x: oracle.sort_key([x])), sorted(exp, key=lambda x: oracle.sort_key([x]))
            if len(vals) != len(exp) or not all(oracle.cell_eq(a, b) for a, b in zip(vals, exp)):
                diffs.append(dict(kind="colexpr_export_differs", column=name, got=vals[:6], expected=exp[:6]))
    except Exception as e:  # noqa: BLE001
        diffs.append(dict(kind="target_error", target="ColExpr.export", exc=P.exc_class(e), msg=str(e)[:150]))
    # … and through the Pandas target: a Series of the same length (a one-row result is still a Series), same values
    if backend == "polars":
        try:
            import pandas as pd

            for name in base["names"][:3]:
                ps = t[name].export(pdt.Pandas())
                if not isinstance(ps, pd.Series):
                    diffs.append(dict(kind="colexpr_export_differs", column=name, target="pandas", got=f"{type(ps).__name__}", expected="pandas.Series",
                                      nrows=len(base["rows"])))
                    continue
                vals = [P.encode_val(None if pd.isna(x) else (x.item() if hasattr(x, "item") else x)) for x in ps.tolist()]
                exp = [r[base["names"].index(name)] for r in base["rows"]]
                if not ordered:
                    vals, exp = sorted(vals, key=lambda x: oracle.sort_key([x])), sorted(exp, key=lambda x: oracle.sort_key([x]))
                if len(vals) != len(exp) or not all(oracle.cell_eq(a, b) for a, b in zip(vals, exp)):
                    diffs.append(dict(kind="colexpr_export_differs", column=name, target="pandas", got=vals[:6], expected=exp[:6]))
        except Exception as e:  # noqa: BLE001
            diffs.append(dict(kind="target_error", target="ColExpr.export(Pandas)", exc=P.exc_class(e), msg=str(e)[:150]))
    # expression mixing a reference taken from an ancestor table with one of the final table (ancestor first)
    try:
        tid = [k_ for k_, v_ in env.tables.items() if v_ is t][0]
        by_id = {s_["id"]: s_ for s_ in env.prog["stmts"]}
        cur = by_id.get(tid)
        anc = None
        while cur is not None and cur.get("src") and cur["op"] in ("filter", "arrange", "slice_head", "mutate", "select", "rename", "group_by", "ungroup"):
            anc = env.tables.get(cur["src"])
            if cur["op"] in ("filter", "slice_head", "arrange"):
                break
            cur = by_id.get(cur["src"])
        if anc is not None and anc is not t:
            for name in base["names"]:
                ua, ut = anc._cache.name_to_uuid.get(name), t._cache.name_to_uuid.get(name)
                if ua is not None and ua == ut and str(t[name].dtype()) in ("Int64", "Int"):
                    got = [P.encode_val(x) for x in (anc[name] + t[name]).export(pdt.Polars()).to_list()]
                    ref = (t >> pdt.mutate(__y=anc[name] + t[name]) >> pdt.select(pdt.C["__y"]) >> pdt.export(pdt.Polars()))["__y"].to_list()
                    ref = [P.encode_val(x) for x in ref]
                    if not ordered:
                        got, ref = sorted(got, key=lambda x: oracle.sort_key([x])), sorted(ref, key=lambda x: oracle.sort_key([x]))
                    if got != ref:
                        diffs.append(dict(kind="colexpr_export_differs", column=f"ancestor.{name} + final.{name}", got=got[:6], expected=ref[:6]))
                    break
    except Exception as e:  # noqa: BLE001
        diffs.append(dict(kind="target_error", target="ColExpr.export(mixed)", exc=P.exc_class(e), msg=str(e)[:150]))
    # re-import reproduces data and column types
    try:
        df = t >> pdt.export(pdt.Polars())
        t2 = pdt.Table(df)
        df2 = t2 >> pdt.export(pdt.Polars())
        if df.schema != df2.schema:
            diffs.append(dict(kind="reimport_types_differ", before=str(df.schema), after=str(df2.schema)))
        d = oracle.compare_frames(P.frame_obs(df), P.frame_obs(df2), ordered=True) if False else oracle.compare_frames(P.frame_obs(df), P.frame_obs(df2), ordered=True)
        if d:
            diffs.append(dict(kind="reimport_differs", detail=d))
        if backend != "polars":
            return diffs
        # on the Polars backend the exported frame carries each column's declared type exactly (also its width): the re-imported table
        # declares what the original table declared
        def norm(dt_):
            x = str(dt_).replace("const ", "").strip()
            return {"Int": "Int64", "Float": "Float64"}.get(x, x)

        for name in base["names"]:
            a, b = norm(t[name].dtype()), norm(t2[name].dtype())
            if a != b and "Null" not in a and not a.startswith("List") and not a.startswith("Decimal"):
                diffs.append(dict(kind="reimport_declared_type_differs", column=name, declared=a, reimported=b, exported=str(df.schema[name])))
        pdf = t >> pdt.export(pdt.Pandas())
        t3 = pdt.Table(pdf)
        df3 = t3 >> pdt.export(pdt.Polars())
        if [str(x) for x in df3.dtypes] != [str(x) for x in df.dtypes]:
            diffs.append(dict(kind="pandas_reimport_types_differ", before=[str(x) for x in df.dtypes], after=[str(x) for x in df3.dtypes]))
    except Exception as e:  # noqa: BLE001
        diffs.append(dict(kind="target_error", target="reimport", exc=P.exc_class(e), msg=str(e)[:150]))
    return diffs


def oracle_c20(program, po, so):
    """re-run the program per backend and export the final table through every target"""
    diffs = []
    for be, obs in (("polars", po), ("sqlite", so)):
        exports = [(st, o) for st, o in zip(program["stmts"], obs) if st["op"] == "export" and o["outcome"] == "ok"]
        if not exports:
            continue
        with warnings.catch_warnings():
            warnings.simplefilter("ignore")
            env = P.Env(program, be)
            ok = True
            for st in program["stmts"]:
                if st["op"] in ("export", "build_query"):
                    continue
                try:
                    r = env.apply(st)
                    (env.exprs if st["op"] == "expr" else env.tables)[st["id"]] = r
                except Exception:  # noqa: BLE001
                    ok = False
                    break
            if not ok:
                continue
            st, o = exports[-1]
            if st["src"] not in env.tables:
                continue
            for d in _targets_one(env, env.tables[st["src"]], o["frame"], bool(st.get("ordered")), be):
                diffs.append(dict(d, stmt=st["id"], op="export", backend=be))
    return diffs


oracle.oracle_c20 = oracle_c20


def long_tables(v):
    """tables longer than any schema-inference window (100 rows by default in polars.read_database): a column that is NULL in
    its first 100+ rows and holds values afterwards - int, float, string, bool - exported from SQLite through every target must
    equal the export of the same pipeline on Polars"""
    import polars as pl
    import pydiverse.transform as pdt
    import sqlalchemy as sqa

    n_bad = 0
    for n_null, n_val in ((100, 5), (130, 40), (250, 1)):
        n = n_null + n_val
        df = pl.DataFrame({
            "k": list(range(n)),
            "i": [None] * n_null + list(range(n_val)),
            "f": [None] * n_null + [x + 0.5 for x in range(n_val)],
            "s": [None] * n_null + [f"v{x}" for x in range(n_val)],
            "b": [None] * n_null + [x % 2 == 0 for x in range(n_val)],
        }, schema={"k": pl.Int64, "i": pl.Int64, "f": pl.Float64, "s": pl.String, "b": pl.Boolean})
        eng = sqa.create_engine("sqlite://")
        df.write_database("c20long", eng)
        for shape in ("plain", "mutate", "left_join"):
            def build(t, u):
                if shape == "plain":
                    return t >> pdt.arrange(t.k)
                if shape == "mutate":
                    return t >> pdt.mutate(j=t.i + 1, g=t.f * 2, u=t.s + "x") >> pdt.arrange(t.k)
                return t >> pdt.select(t.k) >> pdt.left_join(u, t.k == u.k + n_null) >> pdt.arrange(t.k)
            frames = {}
            for be in ("polars", "sqlite"):
                if be == "polars":
                    t = pdt.Table(df, name="c20long")
                    u = pdt.Table(df.filter(pl.col("k") < n_val).rename({"k": "k"}), name="c20u")
                else:
                    t = pdt.Table("c20long", pdt.SqlAlchemy(eng))
                    df.filter(pl.col("k") < n_val).write_database("c20u", eng, if_table_exists="replace")
                    u = pdt.Table("c20u", pdt.SqlAlchemy(eng))
                try:
                    q = build(t, u)
                    out = q >> pdt.export(pdt.Polars())
                    frames[be] = ("ok", out.columns, [[repr(x) for x in row] for row in out.rows()], q >> pdt.export(pdt.DictOfLists()))
                except Exception as e:  # noqa: BLE001
                    frames[be] = ("error", type(e).__name__, str(e)[:200])
            a, b = frames["polars"], frames["sqlite"]
            same = a[0] == b[0] == "ok" and a[1] == b[1] and len(a[2]) == len(b[2]) and all(
                len(x) == len(y) and all(oracle.cell_eq(_unrepr(p), _unrepr(q)) for p, q in zip(x, y)) for x, y in zip(a[2], b[2]))
            if not same:
                n_bad += 1
                v.violation(f"long-table-{shape}-{n_null}", dict(kind="long_table_export_differs", shape=shape, leading_nulls=n_null, rows=n,
                                                                 polars=(a[0], a[1]) if a[0] == "ok" else a, sqlite=(b[0], b[1]) if b[0] == "ok" else b,
                                                                 how="harness/c20.py:long_tables"))
    return n_bad


def _unrepr(s):
    import ast

    try:
        return ast.literal_eval(s)
    except Exception:  # noqa: BLE001
        return s


def run(tier: str, seed: int) -> int:
    v = Verdict(PROP, tier, seed)
    rng = random.Random(seed)
    po = common.proof_obligations(PROP)
    findings = common.findings_for(PROP, also=("C01",))
    n = 150 if tier == "quick" else 3000
    sp = [(seed * 1_000_003 + i, ["rowlevel", "general", "agg", "rowlevel", "join", "agg"][i % 6]) for i in range(n)]
    results = campaign.run_programs(sp, "oracle_c20")
    st = campaign.stats_of(results)
    new, known_hits = [], {}
    frames = []
    shapes = dict(empty=0, single_cell=0, one_row=0, null_only_col=0)
    for r in results:
        if "crash" in r:
            new.append((None, dict(kind="harness_crash", stmt="", detail=r["crash"][-600:])))
            continue
        k, nw = campaign.classify(r["program"], r["diffs"], r["trig"], findings, PROP)
        for fid, ds in k.items():
            known_hits.setdefault(fid, []).extend(ds)
        new += [(r, d) for d in nw]
        for o in r["polars"]:
            if o["op"] == "export" and o["outcome"] == "ok":
                f = o["frame"]
                frames.append(f)
                nr, nc = len(f["rows"]), len(f["names"])
                shapes["empty"] += nr == 0
                shapes["single_cell"] += (nr == 1 and nc == 1)
                shapes["one_row"] += nr == 1
                shapes["null_only_col"] += any(nr > 0 and all(row[j] is None for row in f["rows"]) for j in range(nc))
    # model correspondence: encodings of the exported frames
    corr = []
    if po["build"]["ok"] and frames:
        import pydiverse.transform as pdt  # noqa: F401

        reqs = [dict(cmd="export_targets", names=f["names"], rows=[[lit_json(x) if not isinstance(x, dict) else {"lit": json.dumps(x)} for x in row] for row in f["rows"]])
                for f in frames[:400]]
        outs = common.run_driver(reqs)
        for f, o in zip(frames[:400], outs):
            if o.startswith("ERR"):
                continue
            m = json.loads(o)
            cols = [[n, [row[j] for row in f["rows"]]] for j, n in enumerate(f["names"])]
            mcols = [[c[0], [decode_model(x) for x in c[1]]] for c in m["dict_of_lists"]]
            same = len(cols) == len(mcols) and all(a[0] == b[0] and len(a[1]) == len(b[1]) and all(
                oracle.cell_eq(x if not isinstance(x, dict) else json.dumps(x), y) for x, y in zip(a[1], b[1])) for a, b in zip(cols, mcols))
            if not same:
                corr.append(dict(kind="dict_of_lists_model", frame_names=f["names"]))
            if (m["dict"] == "TypeError") != (len(f["rows"]) != 1):
                corr.append(dict(kind="dict_definedness", rows=len(f["rows"])))
            if (m["scalar"] == "TypeError") != (not (len(f["rows"]) == 1 and len(f["names"]) == 1)):
                corr.append(dict(kind="scalar_definedness", rows=len(f["rows"]), cols=len(f["names"])))
    for f in findings:
        if f["id"] in known_hits:
            v.known_finding(f"{f['id']}: {f['summary']} ({len(known_hits[f['id']])} instances)")
    groups = {}
    for r, d in new:
        groups.setdefault((d["kind"], d.get("target"), d.get("exc")), []).append((r, d))
    for key, items in list(groups.items())[:6]:
        r, d = items[0]
        v.violation("-".join(str(k) for k in key if k), dict(kind=key[0], target=key[1], exc=key[2], n_cases=len(items), first_diff=d,
                                                              program=(r["program"] if r else None), seeds=[x[0]["seed"] for x in items[:8] if x[0]]))
    n_long = long_tables(v)
    new = new + [(None, dict(kind="long_table"))] * n_long
    broken = []
    if not po["ok"]:
        broken.append(dict(kind="proof", errors=po["build"].get("errors"), bad_axioms=po.get("bad_axioms"), forbidden=po.get("forbidden_hits"),
                           missing=po["audit"].get("missing"), tail=po["build"].get("tail", "")[-2000:]))
    if corr:
        broken.append(dict(kind="correspondence", n=len(corr), first=corr[:8]))
    if broken and not new:
        v.violation("unproved", dict(what="a proof obligation or the target-encoding correspondence of C20 no longer checks; no failing input found",
                                     broken=broken, theorems=po.get("theorems")), no_input=True)
    ok = [r for r in results if "crash" not in r]
    v.coverage = dict(
        obligations=po["obligations"], discharged=po["discharged"],
        checker_cmd="cd lean && lake build Pdt.Props.C20 && lake env lean ../out/audit/Pdt_Props_C20.lean",
        trusted_base=common.TRUSTED_BASE, theorems=po["theorems"], axioms=po["audit"].get("axioms"), proof_ok=po["ok"],
        programs=len(ok), disagreements_checked=len(corr), evaluations=len(frames) * 9,
        distinct_nontrivial=st["distinct_nontrivial"],
        rule="generated programs on Polars- and SQLite-backed tables; the final table is exported through Polars (eager/lazy), Pandas, DictOfLists, "
             "ListOfDicts, Dict, Scalar, ColExpr.export and re-imported; non-trivial = distinct program with >= 3 statements and non-empty result",
        samples=[dict(seed=r["seed"], stmts=r["program"]["stmts"][:5]) for r in ok[:2]] or [dict(note="none")],
        shapes_seen=shapes, known_findings_hit={k: len(c) for k, c in known_hits.items()},
    )
    v.assumptions = ["Polars' and pandas' own conversion functions are modelled as the re-encodings of Model/Export.lean and tied by comparison only"]
    return v.finish("proof")
