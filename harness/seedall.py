"""Run every seeded mutation in /verif/seeded against the check(s) of the property it breaks and write
seeded/<id>/meta.json (which property it breaks, what it needs in order to manifest, what was run and the
outcome).  Usage: /venv/bin/python -m harness.seedall [ids…]   (never commits anything in /repo)."""
import json
import os
import re
import subprocess
import sys

VERIF = os.path.dirname(os.path.dirname(os.path.abspath(__file__)))
ALSO = {"C15_m1": ["C05", "C01"], "C01_m2": ["C08", "C06"], "C02_m2": ["C01", "C15"], "C04_m1": ["C08", "C01"], "C05_m2": ["C01"], "C06_m1": ["C01"],
        "C06_m2": ["C01"], "C12_m1": ["C14"], "C08_m1": ["C01"], "C01_m3": ["C15", "C02"], "C16_m3": ["C09"], "C02_m1": ["C10"],
        "C15_m2": ["C01", "C02"], "C01_m1": ["C15", "C02"], "C08_m3": ["C01"], "C09_m3": ["C06"], "C07_m3": ["C01"],
        "C01_m4": ["C06"], "C02_m4": ["C01", "C11"], "C07_m4": ["C01"], "C08_m4": ["C10"], "C09_m4": ["C06"], "C15_m4": ["C07", "C01"],
        "C16_m4": ["C06", "C08"], "C11_m4": ["C06"], "C06_m4": ["C11"], "C05_m4": ["C01"], "C12_m4": ["C14"],
        "C01_m5": ["C06", "C08"], "C02_m5": ["C01"], "C04_m5": ["C12", "C01"], "C05_m5": ["C01", "C15"], "C06_m5": ["C08", "C01"],
        "C07_m5": ["C08", "C01"], "C08_m5": ["C06", "C01"], "C09_m5": ["C06"], "C10_m5": ["C08"], "C11_m5": ["C15", "C04"],
        "C12_m5": ["C05", "C01"], "C15_m5": ["C05", "C01"], "C16_m5": ["C06", "C09"], "C17_m5": ["C12"], "C18_m5": ["C01", "C12"],
        "C01_m6": ["C04"], "C02_m6": ["C11", "C01"], "C03_m6": ["C10"], "C04_m6": ["C08", "C01"], "C05_m6": ["C01", "C15"], "C06_m6": ["C01"],
        "C07_m6": ["C01", "C09"], "C08_m6": ["C14", "C01"], "C09_m6": ["C06"], "C10_m6": ["C06", "C11"], "C11_m6": ["C02", "C09"],
        "C15_m6": ["C03", "C01"], "C16_m6": ["C08", "C06"], "C18_m6": ["C03", "C01"], "C19_m6": ["C05", "C01"],
        "C01_m7": ["C06"], "C02_m7": ["C11", "C01"], "C03_m7": ["C01"], "C04_m7": ["C01", "C11"], "C05_m7": ["C01", "C15"], "C06_m7": ["C11"],
        "C07_m7": ["C01", "C15"], "C08_m7": ["C01", "C04"], "C09_m7": ["C14", "C06"], "C10_m7": ["C05", "C15"], "C11_m7": ["C02", "C06"],
        "C15_m7": ["C03"], "C16_m7": ["C11", "C04"], "C18_m7": ["C03", "C01"], "C20_m7": ["C12"],
        "C01_m8": ["C11", "C04"], "C02_m8": ["C01", "C15"], "C03_m8": ["C01"], "C04_m8": ["C08", "C01"], "C05_m8": ["C01", "C15"], "C06_m8": ["C01"],
        "C07_m8": ["C15"], "C08_m8": ["C06"], "C09_m8": ["C11"], "C10_m8": ["C05", "C01"], "C11_m8": ["C01", "C04"], "C15_m8": ["C03", "C18"],
        "C16_m8": ["C09"], "C17_m8": ["C19"], "C18_m8": ["C04", "C01"], "C19_m8": ["C01"], "C14_m8": ["C04"],
        "C01_m9": ["C04", "C08"], "C02_m9": ["C08", "C01"], "C03_m9": ["C01"], "C04_m9": ["C01", "C12"], "C05_m9": ["C01", "C15"], "C06_m9": ["C14", "C11"],
        "C07_m9": ["C14"], "C08_m9": ["C06"], "C09_m9": ["C16", "C01"], "C10_m9": ["C07"], "C11_m9": ["C04", "C01"], "C12_m9": ["C01"],
        "C14_m9": ["C06"], "C15_m9": ["C05", "C01"], "C16_m9": ["C09"], "C17_m9": ["C12"], "C19_m9": ["C07", "C10"], "C20_m9": ["C01", "C11"],
        "C01_m10": ["C05", "C15"], "C02_m10": ["C19", "C01"], "C03_m10": ["C12"], "C04_m10": ["C01"], "C05_m10": ["C01", "C04"], "C06_m10": ["C11"],
        "C07_m10": ["C14"], "C08_m10": ["C09"], "C09_m10": ["C08", "C16"], "C10_m10": ["C05"], "C11_m10": ["C04", "C01"], "C12_m10": ["C03"],
        "C15_m10": ["C05", "C01"], "C16_m10": ["C06"], "C18_m10": ["C19"], "C19_m10": ["C17"], "C20_m10": ["C06"], "C17_m10": ["C12", "C03"],
        "C01_m11": ["C03", "C12"], "C02_m11": ["C08", "C01"], "C03_m11": ["C12"], "C04_m11": ["C01", "C08"], "C05_m11": ["C01"], "C06_m11": ["C09", "C01"],
        "C07_m11": ["C14"], "C08_m11": ["C01", "C04"], "C09_m11": ["C06", "C11"], "C10_m11": ["C02"], "C11_m11": ["C06", "C20"], "C12_m11": ["C17"],
        "C13_m11": ["C12"], "C14_m11": ["C04"], "C15_m11": ["C11"], "C16_m11": ["C06", "C04"], "C17_m11": ["C12"], "C18_m11": ["C05", "C01"], "C19_m11": ["C03"], "C20_m11": ["C11"],
        "C01_m12": ["C18", "C03"], "C02_m12": ["C01"], "C03_m12": ["C18"], "C04_m12": ["C11", "C01"], "C05_m12": ["C01"], "C06_m12": ["C15", "C01"],
        "C07_m12": ["C09", "C01"], "C08_m12": ["C09"], "C09_m12": ["C11"], "C10_m12": ["C06"], "C11_m12": ["C20"], "C12_m12": ["C17", "C03"],
        "C13_m12": ["C12", "C14"], "C14_m12": ["C04"], "C15_m12": ["C06"], "C16_m12": ["C06", "C08"], "C17_m12": ["C14"], "C18_m12": ["C19"], "C19_m12": ["C16"], "C20_m12": ["C11", "C04"],
        "C01_m13": ["C08", "C06"], "C02_m13": ["C11", "C09"], "C04_m13": ["C01"], "C05_m13": ["C01"], "C06_m13": ["C11"], "C07_m13": ["C14", "C13"],
        "C09_m13": ["C08", "C11"], "C11_m13": ["C09"], "C15_m13": ["C08", "C02"], "C16_m13": ["C09", "C06"]}


def needs_of(notes: str) -> str:
    keep = []
    grab = False
    for line in notes.splitlines():
        l = line.strip()
        if re.match(r"^[-*]\s*(\*\*)?(Needs?|Needed|Manifests?|Needed to manifest|What is needed|Trigger|Requires)", l, re.I):
            grab = True
            keep.append(l)
            continue
        if grab and l and not re.match(r"^[-*#]", l):
            keep.append(l)
            continue
        grab = False
    return " ".join(keep) or "see notes.md"


def main():
    ids = sys.argv[1:] or sorted(os.listdir(os.path.join(VERIF, "seeded")))
    table = []
    for sid in ids:
        d = os.path.join(VERIF, "seeded", sid)
        if not os.path.isdir(d):
            continue
        prop = sid.split("_")[0]
        notes = open(os.path.join(d, "notes.md")).read() if os.path.exists(os.path.join(d, "notes.md")) else ""
        meta = dict(id=sid, breaks=prop, title=(notes.splitlines() or [""])[0].lstrip("# ").strip(), needs=needs_of(notes), ran=[], results={})
        applies = subprocess.run(["git", "-C", "/repo", "apply", "--check", os.path.join(d, "patch.diff")], capture_output=True).returncode == 0
        if os.path.exists(os.path.join(d, "patch.orig.diff")):
            meta["rebased"] = ("patch.orig.diff is the sub-agent's patch against the tree before the fix: commits; patch.diff is the same change "
                               "carried over by hand to the repaired lines (demo.py fails with it and passes without it)")
        if not applies:
            meta["status"] = "does-not-apply"
            meta["remark"] = "the patch changes lines that a later fix: commit in /repo rewrote; kept for the record, superseded by a newer seed of the same property"
        else:
            # the demonstration first: does the mutation still manifest on the current tree?
            subprocess.run(["git", "-C", "/repo", "apply", os.path.join(d, "patch.diff")], check=True)
            try:
                # (a mutation may introduce non-determinism: its demonstration is given three attempts to fail)
                for _attempt in range(3):
                    demo = subprocess.run(["/venv/bin/python", os.path.join(d, "demo.py")], capture_output=True, cwd="/tmp", timeout=600)
                    if demo.returncode != 0:
                        break
            finally:
                subprocess.run(["git", "-C", "/repo", "checkout", "--", "."], check=True)
            meta["ran"].append("git -C /repo apply patch.diff; /venv/bin/python demo.py; git -C /repo checkout -- .")
            meta["demo_fails_with_patch"] = demo.returncode != 0
            if demo.returncode == 0:
                meta["status"] = "no-longer-manifests"
                meta["remark"] = "the demonstration passes with the patch applied on the current (repaired) tree: the mutation relied on a defect that has been fixed"
            caught = []
            for p in [prop] + ALSO.get(sid, []):
                r = subprocess.run([os.path.join(VERIF, "harness", "seedrun.sh"), sid, p], capture_output=True, text=True, cwd=VERIF)
                out = r.stdout.strip().splitlines()
                meta["ran"].append(f"harness/seedrun.sh {sid} {p} quick")
                viol = [l for l in out if l.startswith("VIOLATION")]
                rc = re.search(r"rc=(\d+)", out[0]) if out else None
                meta["results"][p] = dict(rc=int(rc.group(1)) if rc else None, violations=viol[:3],
                                          with_failing_input=any("no-failing-input-found" not in v for v in viol))
                if viol:
                    caught.append(p)
            if "status" not in meta:
                meta["status"] = "caught" if prop in caught else ("caught-by-other-check" if caught else "missed")
            meta["caught_by"] = caught
        json.dump(meta, open(os.path.join(d, "meta.json"), "w"), indent=1)
        table.append((sid, meta["status"], meta.get("caught_by")))
        print(sid, meta["status"], meta.get("caught_by"), flush=True)


if __name__ == "__main__":
    main()
