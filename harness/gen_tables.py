#!/venv/bin/python
"""Translator: dump everything that is *data* in pydiverse.transform's source (operator
catalogue, type graph, cast relation, implementation coverage, MSSQL rewrite sets,
exception classes) as Lean definitions under lean/Pdt/Gen/ and as JSON under out/gen/.

Run on every check; the theorems in lean/Pdt/Props quantify over these tables, so they are
re-checked by the Lean kernel against what the source says now.
"""

from __future__ import annotations

import ast
import hashlib
import json
import os
import sys

VERIF = os.path.dirname(os.path.dirname(os.path.abspath(__file__)))
REPO = os.environ.get("PDT_REPO", "/repo")
sys.path.insert(0, os.path.join(REPO, "src"))

from pydiverse.common import (  # noqa: E402
    Bool,
    Date,
    Datetime,
    Decimal,
    Duration,
    Enum,
    Float,
    Float32,
    Float64,
    Int,
    Int8,
    Int16,
    Int32,
    Int64,
    List,
    NullType,
    String,
    Time,
    UInt8,
    UInt16,
    UInt32,
    UInt64,
)
from pydiverse.transform._internal.ops import ops  # noqa: E402
from pydiverse.transform._internal.ops.op import Operator  # noqa: E402
from pydiverse.transform._internal.ops.ops.markers import Marker  # noqa: E402
from pydiverse.transform._internal.ops.signature import SignatureTrie  # noqa: E402
from pydiverse.transform._internal.tree import types  # noqa: E402
from pydiverse.transform._internal.tree.col_expr import Cast  # noqa: E402
from pydiverse.transform._internal.tree.types import Const, Tyvar  # noqa: E402

SIMPLE_CTORS = {
    Int: "int",
    Float: "float",
    UInt8: "uint8",
    UInt16: "uint16",
    UInt32: "uint32",
    UInt64: "uint64",
    Int8: "int8",
    Int16: "int16",
    Int32: "int32",
    Int64: "int64",
    Float32: "float32",
    Float64: "float64",
    Bool: "bool",
    Date: "date",
    Datetime: "datetime",
    Time: "time",
    Duration: "duration",
    NullType: "null",
}


def lean_str(s: str) -> str:
    return json.dumps(s, ensure_ascii=False)


def dt_lean(d) -> str:
    """Lean term (atomic or parenthesised) for a dtype."""
    t = type(d)
    if t in SIMPLE_CTORS:
        return "." + SIMPLE_CTORS[t]
    if t is Decimal:
        return f"(.decimal {d.precision} {d.scale})"
    if t is String:
        return "(.string none)" if d.max_length is None else f"(.string (some {d.max_length}))"
    if t is Enum:
        return "(.enum [" + ", ".join(lean_str(c) for c in d.categories) + "])"
    if t is List:
        return f"(.list {dt_lean(d.inner)})"
    if t is Tyvar:
        return f"(.tyvar {lean_str(d.name)})"
    if t is Const:
        return f"(.const {dt_lean(d.base)})"
    raise TypeError(f"unknown dtype class {t}")


def dt_json(d):
    """Canonical JSON/text form shared with the Lean driver (`Dtype.toText`)."""
    t = type(d)
    if t in SIMPLE_CTORS:
        return SIMPLE_CTORS[t]
    if t is Decimal:
        return f"decimal({d.precision},{d.scale})"
    if t is String:
        return "string" if d.max_length is None else f"string({d.max_length})"
    if t is Enum:
        return "enum(" + "|".join(d.categories) + ")"
    if t is List:
        return f"list<{dt_json(d.inner)}>"
    if t is Tyvar:
        return f"tyvar({d.name})"
    if t is Const:
        return f"const {dt_json(d.base)}"
    raise TypeError(f"unknown dtype class {t}")


def lean_list(items, indent="  ") -> str:
    items = list(items)
    if not items:
        return "[]"
    return "[\n" + ",\n".join(indent + it for it in items) + "]"


# --------------------------------------------------------------------------- operators


def all_operators() -> list[tuple[str, Operator]]:
    return [(k, v) for k, v in vars(ops).items() if isinstance(v, Operator)]


def trie_signatures(trie: SignatureTrie):
    """Recover (types, is_vararg, data) triples from a trie by walking it (used for the
    implementation stores, which do not keep their insertion list)."""
    out = []

    def walk(node, path):
        loops = [k for k, ch in node.children.items() if ch is node]
        if node.data is not None:
            if loops:
                # vararg: the loop type is the type preceding the ellipsis
                out.append((list(path) + [loops[0]], True, node.data))
            else:
                out.append((list(path), False, node.data))
        for k, ch in node.children.items():
            if ch is not node:
                walk(ch, path + [k])

    walk(trie.root, [])
    return out


def dump_ops():
    recs = []
    for attr, op in all_operators():
        sigs = []
        for s in op.signatures:
            sigs.append(
                dict(
                    params=[dt_json(t) for t in s.types],
                    params_lean=[dt_lean(t) for t in s.types],
                    vararg=bool(s.is_vararg),
                    ret=dt_json(s.return_type),
                    ret_lean=dt_lean(s.return_type),
                )
            )
        recs.append(
            dict(
                attr=attr,
                name=op.name,
                ftype=op.ftype.name,
                cls=type(op).__name__,
                is_marker=isinstance(op, Marker),
                sigs=sigs,
                ctx=[(c.name, bool(c.required)) for c in op.context_kwargs],
                params=list(op.param_names),
                gen_method=bool(op.generate_expr_method),
            )
        )
    return recs


FT = {"ELEMENT_WISE": ".elementWise", "AGGREGATE": ".aggregate", "WINDOW": ".window"}


def ops_lean(recs) -> str:
    out = [
        "-- GENERATED by harness/gen_tables.py from /repo/src — do not edit",
        "import Pdt.Model.Dtype",
        "namespace Pdt.Gen",
        "open Pdt",
        "",
    ]
    names = []
    for r in recs:
        ident = "op_" + r["attr"]
        names.append(ident)
        sigs = lean_list(
            (
                "{ params := ["
                + ", ".join(s["params_lean"])
                + f"], vararg := {'true' if s['vararg'] else 'false'}, ret := {s['ret_lean']} }}"
                for s in r["sigs"]
            ),
            indent="      ",
        )
        out.append(f"def {ident} : OpDecl :=")
        out.append(
            "  { attr := "
            + lean_str(r["attr"])
            + ", name := "
            + lean_str(r["name"])
            + f", ftype := {FT[r['ftype']]}, isMarker := {'true' if r['is_marker'] else 'false'},"
        )
        out.append("    sigs := " + sigs + ",")
        out.append("    ctxKwargs := [" + ", ".join(lean_str(c[0]) for c in r["ctx"]) + "],")
        out.append("    paramNames := [" + ", ".join(lean_str(p) for p in r["params"]) + "] }")
        out.append("")
    out.append("def opTable : List OpDecl := " + lean_list(names))
    out.append("")
    # cost-balanced chunks so that the exhaustive kernel checks build in parallel
    K = 16
    USZ = {0: 1, 1: 58, 2: 3364, 3: 10648, 4: 4096}
    def cost(r):
        ars = set()
        for s in r["sigs"]:
            n = len(s["params"])
            ars |= {n - 1, n, n + 1} if s["vararg"] else {n}
        tyv = any("tyvar" in p for s in r["sigs"] for p in s["params"])
        return len(r["sigs"]) * sum(USZ.get(k, 4096) for k in ars if k >= 0) * (3 if tyv else 1) + 1
    chunks = [[] for _ in range(K)]
    loads = [0] * K
    for r in sorted(recs, key=cost, reverse=True):
        i = loads.index(min(loads))
        chunks[i].append("op_" + r["attr"])
        loads[i] += cost(r)
    for i, ch in enumerate(chunks):
        out.append(f"def opChunk{i} : List OpDecl := [" + ", ".join(ch) + "]")
    out.append("def opChunks : List (List OpDecl) := [" + ", ".join(f"opChunk{i}" for i in range(K)) + "]")
    out.append("")
    out.append("end Pdt.Gen")
    return "\n".join(out) + "\n"


# --------------------------------------------------------------------------- type graph


def dump_types():
    conv = []
    for src, tgts in types.IMPLICIT_CONVS.items():
        conv.append((src, [(t, c) for t, c in tgts.items()]))
    return dict(
        int_subtypes=list(types.INT_SUBTYPES),
        float_subtypes=list(types.FLOAT_SUBTYPES),
        simple_types=list(types.SIMPLE_TYPES),
        numeric=list(types.NUMERIC),
        comparable=list(types.COMPARABLE),
        implicit_convs=conv,
    )


def universe(tg) -> list:
    """The finite type universe over which the kernel decides C13/C17 exhaustively: every
    simple type of the source plus representatives of each parametrised family."""
    base = []
    for t in tg["simple_types"]:
        if t not in base:
            base.append(t)
    for t in [Int(), Float()]:
        if t not in base:
            base.append(t)
    extras = [
        String(3),
        String(5),
        Decimal(10, 2),
        Decimal(12, 4),
        Enum("a", "bc"),
        Enum("x"),
        List(Int64()),
        List(String()),
        List(NullType()),
    ]
    return base + extras


def types_lean(tg, uni) -> str:
    out = [
        "-- GENERATED by harness/gen_tables.py from /repo/src — do not edit",
        "import Pdt.Model.Dtype",
        "namespace Pdt.Gen",
        "open Pdt",
        "",
    ]
    for key in ["int_subtypes", "float_subtypes", "simple_types", "numeric", "comparable"]:
        lname = "".join(w.capitalize() if i else w for i, w in enumerate(key.split("_")))
        out.append(f"def {lname} : List Dtype := [" + ", ".join(dt_lean(t) for t in tg[key]) + "]")
    out.append("")
    rows = []
    for src, tgts in tg["implicit_convs"]:
        rows.append(
            f"({dt_lean(src)}, [" + ", ".join(f"({dt_lean(t)}, {c[0]}, {c[1]})" for t, c in tgts) + "])"
        )
    out.append("def implicitConvs : List (Dtype × List (Dtype × Nat × Nat)) := " + lean_list(rows))
    out.append("")
    out.append("/-- base (non-const) type universe for the exhaustive kernel checks -/")
    out.append("def baseUniverse : List Dtype := [" + ", ".join(dt_lean(t) for t in uni) + "]")
    out.append("")
    out.append("end Pdt.Gen")
    return "\n".join(out) + "\n"


# --------------------------------------------------------------------------- casts


def dump_casts(uni):
    rel = []
    for s in uni:
        for t in uni:
            try:
                ok = bool(Cast.is_valid_cast(s, t))
            except Exception as e:  # pragma: no cover
                ok = f"ERR:{type(e).__name__}"
            if ok:
                rel.append((s, t, ok))
    return rel


def casts_lean(rel) -> str:
    out = [
        "-- GENERATED by harness/gen_tables.py from /repo/src — do not edit",
        "import Pdt.Model.Dtype",
        "namespace Pdt.Gen",
        "open Pdt",
        "",
        "/-- `Cast.is_valid_cast` evaluated on baseUniverse² (pairs where it returns True) -/",
        "def validCasts : List (Dtype × Dtype) := "
        + lean_list(f"({dt_lean(s)}, {dt_lean(t)})" for s, t, ok in rel if ok is True),
        "",
        "end Pdt.Gen",
    ]
    return "\n".join(out) + "\n"


# --------------------------------------------------------------------------- impl coverage


def backend_chains():
    from pydiverse.transform._internal.backend.polars import PolarsImpl
    from pydiverse.transform._internal.backend.sql import SqlImpl
    from pydiverse.transform._internal.backend.table_impl import TableImpl

    chains = {}
    chains["polars"] = [PolarsImpl, TableImpl]
    chains["sql"] = [SqlImpl, TableImpl]
    mods = [
        ("sqlite", "sqlite", "SqliteImpl"),
        ("postgres", "postgres", "PostgresImpl"),
        ("mssql", "mssql", "MsSqlImpl"),
        ("duckdb", "duckdb", "DuckDbImpl"),
        ("ibm_db2", "ibm_db2", "IbmDb2Impl"),
        ("duckdb_polars", "duckdb_polars", "DuckDbPolarsImpl"),
    ]
    skipped = {}
    import importlib

    for key, mod, cls in mods:
        try:
            m = importlib.import_module(f"pydiverse.transform._internal.backend.{mod}")
            c = getattr(m, cls)
            chain = []
            k = c
            while True:
                chain.append(k)
                if k is TableImpl:
                    break
                k = k.__bases__[0]
            chains[key] = chain
        except Exception as e:
            skipped[key] = f"{type(e).__name__}: {e}"
    return chains, skipped


def dump_impls():
    chains, skipped = backend_chains()
    op_attr = {id(op): attr for attr, op in all_operators()}
    stores = {}
    for key, chain in chains.items():
        for cls in chain:
            if cls.__name__ in stores:
                continue
            st = cls.impl_store
            rec = {}
            for op, f in st.default_impl.items():
                if id(op) in op_attr:
                    rec.setdefault(op_attr[id(op)], dict(default=False, typed=[]))["default"] = f is not None
            for op, trie in st.impl_trie.items():
                if id(op) in op_attr:
                    r = rec.setdefault(op_attr[id(op)], dict(default=False, typed=[]))
                    for tys, va, _ in trie_signatures(trie):
                        r["typed"].append(dict(params=[dt_json(t) for t in tys], params_lean=[dt_lean(t) for t in tys], vararg=va))
            stores[cls.__name__] = rec
    return (
        dict(chains={k: [c.__name__ for c in ch] for k, ch in chains.items()}, stores=stores, skipped=skipped),
        chains,
    )


def impls_lean(impl) -> str:
    out = [
        "-- GENERATED by harness/gen_tables.py from /repo/src — do not edit",
        "import Pdt.Model.Dtype",
        "namespace Pdt.Gen",
        "open Pdt",
        "",
    ]
    for cls, rec in impl["stores"].items():
        rows = []
        for attr, r in rec.items():
            typed = "[" + ", ".join(
                "{ params := [" + ", ".join(t["params_lean"]) + f"], vararg := {'true' if t['vararg'] else 'false'}, ret := .null }}"
                for t in r["typed"]
            ) + "]"
            rows.append(f"({lean_str(attr)}, {'true' if r['default'] else 'false'}, {typed})")
        out.append(f"def store_{cls} : List (String × Bool × List Sig) := " + lean_list(rows))
        out.append("")
    rows = []
    for key, chain in impl["chains"].items():
        rows.append(f"({lean_str(key)}, [" + ", ".join(f"store_{c}" for c in chain) + "])")
    out.append("def backendChains : List (String × List (List (String × Bool × List Sig))) := " + lean_list(rows))
    out.append("")
    out.append("end Pdt.Gen")
    return "\n".join(out) + "\n"


# --------------------------------------------------------------------------- misc (AST-extracted)


def dump_misc():
    src = os.path.join(REPO, "src/pydiverse/transform/_internal")
    res = {}
    # public exception classes
    tree = ast.parse(open(os.path.join(src, "errors/__init__.py")).read())
    res["exceptions"] = [
        (n.name, [ast.unparse(b) for b in n.bases]) for n in tree.body if isinstance(n, ast.ClassDef)
    ]
    # operator sets inside mssql.convert_bool_bit (tuples of ops.<name> in `in (...)` tests)
    try:
        mtree = ast.parse(open(os.path.join(src, "backend/mssql.py")).read())
        sets = []
        for fn in ast.walk(mtree):
            if isinstance(fn, ast.FunctionDef) and fn.name == "convert_bool_bit":
                for node in ast.walk(fn):
                    if isinstance(node, ast.Compare) and any(isinstance(o, ast.In) for o in node.ops):
                        for comp in node.comparators:
                            if isinstance(comp, ast.Tuple):
                                names = [ast.unparse(e) for e in comp.elts]
                                if all(n.startswith("ops.") for n in names):
                                    sets.append([n[4:] for n in names])
        res["mssql_bool_bit_sets"] = sets
    except Exception as e:  # pragma: no cover
        res["mssql_bool_bit_sets_error"] = str(e)
    return res


# --------------------------------------------------------------------------- main


def source_hash() -> str:
    h = hashlib.sha256()
    root = os.path.join(REPO, "src")
    for dp, dn, fn in sorted(os.walk(root)):
        dn.sort()
        if "__pycache__" in dp:
            continue
        for f in sorted(fn):
            if f.endswith(".py"):
                p = os.path.join(dp, f)
                h.update(p.encode())
                h.update(open(p, "rb").read())
    return h.hexdigest()


def write_if_changed(path: str, content: str) -> bool:
    os.makedirs(os.path.dirname(path), exist_ok=True)
    if os.path.exists(path) and open(path).read() == content:
        return False
    with open(path, "w") as f:
        f.write(content)
    return True


def main():
    gen_dir = os.path.join(VERIF, "lean/Pdt/Gen")
    out_dir = os.path.join(VERIF, "out/gen")
    os.makedirs(out_dir, exist_ok=True)
    op_recs = dump_ops()
    tg = dump_types()
    uni = universe(tg)
    casts = dump_casts(uni)
    impl, _ = dump_impls()
    misc = dump_misc()
    changed = []
    for fname, content in [
        ("OpTable.lean", ops_lean(op_recs)),
        ("TypeGraph.lean", types_lean(tg, uni)),
        ("Casts.lean", casts_lean(casts)),
        ("ImplCoverage.lean", impls_lean(impl)),
    ]:
        if write_if_changed(os.path.join(gen_dir, fname), content):
            changed.append(fname)
    js = dict(
        source_hash=source_hash(),
        ops=op_recs,
        types=dict(
            int_subtypes=[dt_json(t) for t in tg["int_subtypes"]],
            float_subtypes=[dt_json(t) for t in tg["float_subtypes"]],
            simple_types=[dt_json(t) for t in tg["simple_types"]],
            implicit_convs=[[dt_json(s), [[dt_json(t), list(c)] for t, c in tg2]] for s, tg2 in tg["implicit_convs"]],
            universe=[dt_json(t) for t in uni],
        ),
        casts=[[dt_json(s), dt_json(t)] for s, t, ok in casts if ok is True],
        impl=dict(chains=impl["chains"], skipped=impl["skipped"],
                  stores={c: {a: dict(default=r["default"], typed=[dict(params=t["params"], vararg=t["vararg"]) for t in r["typed"]]) for a, r in rec.items()} for c, rec in impl["stores"].items()}),
        misc=misc,
    )
    write_if_changed(os.path.join(out_dir, "tables.json"), json.dumps(js, indent=1, sort_keys=True))
    print(json.dumps(dict(changed=changed, n_ops=len(op_recs), universe=len(uni), casts=len(casts),
                          backends=list(impl["chains"].keys()), skipped=impl["skipped"])))


if __name__ == "__main__":
    main()
