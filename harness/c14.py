"""C14 — ill-formed pipelines are rejected when built, with the documented error.

Deciding method: Lean theorems over the model of the expression layer and the verb checks
(Pdt/Props/C14.lean), tied by the front-end correspondence on (a) generated valid programs and (b) the
rejection stream (one planted offence per program: each rule × syntactic position × history), on both
backends.  Oracle: exception class of the offending verb call = documented class, input table still
exports; conversely accepted pipelines export on Polars without an internal error.
"""
from . import common, front, progcheck, reject
from . import prog as P

PROP = "C14"


def _rejections(tier, seed):
    def extra(po, findings, known_hits):
        n = 400 if tier == "quick" else 6000
        new, corr = [], []
        rules = {}
        items = []
        for i in range(n):
            r = reject.build(seed * 1_000_003 + i)
            if r is None:
                continue
            p, oid, exp, rule = r
            rules[rule[0] + "/" + rule[1]] = rules.get(rule[0] + "/" + rule[1], 0) + 1
            for be in ("polars", "sqlite"):
                obs = P.run_program(p, be)
                items.append((p, be, obs))
                o = next(x for x in obs if x["id"] == oid)
                u = next(x for x in obs if x["id"] == "still_usable")
                if not (o["outcome"] == "error" and o["exc"] in exp):
                    new.append((dict(program=p, seed=p.get("seed"), profile="reject"),
                                dict(kind="wrong_rejection", stmt=oid, op=str(rule), exc=o.get("exc"), expected=exp, outcome=o["outcome"], backend=be, msg=o.get("msg"))))
                if u["outcome"] != "ok" and u.get("exc") == "InvalidOperationError" and "doesn't match the DataFrame height" in (u.get("msg") or "") \
                        and any(f["id"] == "D51" for f in findings):
                    # the history contains an expression the Polars engine folds to a scalar (engine finding D51):
                    # the input table was unusable before the rejected verb as well
                    known_hits.setdefault("D51", []).append(dict(kind="input_unusable_after_rejection", stmt="still_usable", exc=u.get("exc")))
                elif u["outcome"] != "ok":
                    new.append((dict(program=p, seed=p.get("seed"), profile="reject"),
                                dict(kind="input_unusable_after_rejection", stmt="still_usable", op=str(rule), exc=u.get("exc"), backend=be)))
        if po["build"]["ok"]:
            mo = front.model_run(items)
            for (p, be, ro), m in zip(items, mo):
                if m is None:
                    corr.append(dict(kind="driver_error", seed=p.get("seed")))
                    continue
                for d in front.compare_front(p, be, ro, m):
                    corr.append(dict(d, seed=p.get("seed"), stream="rejection", backend=be))
        return new, corr, dict(rejection_programs=len(items), rejection_rules_hit=rules)
    return extra


def run(tier, seed):
    return progcheck.run(PROP, tier, seed, "oracle_c14_accept", ["general", "rowlevel", "agg", "window", "join", "subquery"], 300, 8000,
                         also=("C01", "C08"), extra_new=_rejections(tier, seed),
                         assumptions=["rejection rules are proved over the model of the front end; the position quantifier is covered by the propagation "
                                      "lemmas (an error in any argument is the error of the enclosing call) and exercised by the rejection stream",
                                      "different-backend joins/unions are not expressible in one program run and are not exercised"])
