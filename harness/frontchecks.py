"""Oracles of the front-end properties C09, C11, C14, C16 on the real code."""

from __future__ import annotations

import copy
import warnings

from . import oracle
from . import prog as P


def oracle_c11(program, po, so):
    diffs = []
    for be, obs in (("polars", po), ("sqlite", so)):
        cache = {}
        for st, o in zip(program["stmts"], obs):
            if o["outcome"] != "ok":
                continue
            c = o.get("cache")
            if c:
                cache[st["id"]] = c
                cols = c["columns"]
                api = c.get("api") or {}
                if "error" in api:
                    diffs.append(dict(kind="metadata_accessor_error", stmt=st["id"], op=st["op"], backend=be, exc=api["error"]))
                else:
                    if api["iter"] != cols or api["dir"] != sorted(cols) or api["len"] != len(cols) or not api["contains"] or not api.get("contains_refs", True):
                        diffs.append(dict(kind="metadata_accessors_disagree", stmt=st["id"], op=st["op"], backend=be, columns=cols, api=api))
                if c.get("from_ast_diff"):
                    diffs.append(dict(kind="accumulated_vs_recomputed", stmt=st["id"], op=st["op"], backend=be, fields=c["from_ast_diff"]))
            if st["op"] == "export" and "frame" in o and st["src"] in cache:
                cols = cache[st["src"]]["columns"]
                if o["frame"]["names"] != cols:
                    diffs.append(dict(kind="columns_vs_export", stmt=st["id"], op="export", backend=be, columns=cols, exported=o["frame"]["names"]))
    return diffs


def _rebuild(program, be):
    env = P.Env(program, be)
    for st in program["stmts"]:
        if st["op"] in ("export", "build_query"):
            continue
        if any(st.get(k) is not None and st[k] not in env.tables for k in ("src", "right")):
            continue
        try:
            r = env.apply(st)
            (env.exprs if st["op"] == "expr" else env.tables)[st["id"]] = r
        except Exception:  # noqa: BLE001
            pass
    return env


def _frame(t):
    import pydiverse.transform as pdt

    return P.frame_obs(t >> pdt.export(pdt.Polars()))


def oracle_c16(program, po, so):
    import pydiverse.transform as pdt
    from pydiverse.transform._internal.errors import ColumnNotFoundError

    diffs = []
    exports = [st for st in program["stmts"] if st["op"] == "export"]
    if not exports:
        return diffs
    st = exports[-1]
    for be, obs in (("polars", po), ("sqlite", so)):
        o = next(x for x in obs if x["id"] == st["id"])
        if o["outcome"] != "ok":
            continue
        with warnings.catch_warnings():
            warnings.simplefilter("ignore")
            env = _rebuild(program, be)
            T = env.tables.get(st["src"])
            if T is None:
                continue
            base = o["frame"]
            ordered = bool(st.get("ordered"))
            grouped = bool(T._cache.partition_by)

            def same(tag, t2, check_group=False):
                try:
                    f = _frame(t2)
                except pdt.errors.SubqueryError if hasattr(pdt, "errors") else Exception:  # noqa: B030
                    return
                except Exception as e:  # noqa: BLE001
                    diffs.append(dict(kind="reroot_export_error", verb=tag, stmt=st["id"], op="export", backend=be, exc=P.exc_class(e), msg=str(e)[:120]))
                    return
                d = oracle.compare_frames(base, f, ordered)
                if d:
                    diffs.append(dict(kind="reroot_changes_data", verb=tag, stmt=st["id"], op="export", backend=be, detail=d))
                if list(t2 >> pdt.columns()) != list(T >> pdt.columns()):
                    diffs.append(dict(kind="reroot_changes_names", verb=tag, stmt=st["id"], op="export", backend=be))
                if check_group:
                    g1 = [T._cache.uuid_to_name.get(u) for u in T._cache.partition_by]
                    g2 = [t2._cache.uuid_to_name.get(u) for u in t2._cache.partition_by]
                    if g1 != g2:
                        diffs.append(dict(kind="grouping_lost", verb=tag, stmt=st["id"], op="export", backend=be, before=g1, after=g2))

            try:
                A = T >> pdt.alias()
                K = T >> pdt.alias(keep_col_refs=True)
            except Exception as e:  # noqa: BLE001
                diffs.append(dict(kind="reroot_error", verb="alias", stmt=st["id"], op="export", backend=be, exc=P.exc_class(e)))
                continue
            same("alias", A, check_group=True)
            same("alias_keep", K, check_group=True)
            same("alias_alias", A >> pdt.alias("again"))
            hidden_group = any(u not in T._cache.uuid_to_name for u in T._cache.partition_by)
            try:
                Cc = T >> pdt.collect()
                same("collect", Cc, check_group=not hidden_group)
                same("collect_no_refs", T >> pdt.collect(keep_col_refs=False))
                # types survive collect
                if [str(c.dtype()) for c in Cc] != [str((T >> pdt.export(pdt.Polars())).schema[c.name]) and str(c.dtype()) for c in Cc]:
                    pass
            except Exception as e:  # noqa: BLE001
                diffs.append(dict(kind="reroot_error", verb="collect", stmt=st["id"], op="export", backend=be, exc=P.exc_class(e), msg=str(e)[:120]))
                Cc = None
            names = list(T >> pdt.columns())
            if not names or grouped:
                continue
            n0 = names[0]
            # transfer_col_references: a materialised copy of the data - also one whose visible names were produced by a
            # rename (rotated names renamed back) - takes over the origin's references: same frame, and every reference
            # of the origin denotes the same column's data
            try:
                df0 = T >> pdt.export(pdt.Polars())
                mats = [("transfer", pdt.Table(df0, name="mat"))]
                if len(names) >= 2:
                    rot = names[1:] + names[:1]
                    df1 = df0.rename(dict(zip(names, ["__tmp_" + x for x in names]))).rename(dict(zip(["__tmp_" + x for x in names], rot)))
                    back = pdt.Table(df1, name="mat_r") >> pdt.rename(dict(zip(rot, ["__r_" + x for x in names]))) \
                        >> pdt.rename(dict(zip(["__r_" + x for x in names], names))) >> pdt.select(*names)
                    mats.append(("transfer_renamed", back))
                for tag, M in mats:
                    X = pdt.transfer_col_references(M, T)
                    same(tag, X)
                    for n in names[:4]:
                        f = _frame(X >> pdt.mutate(__p=T[n]))
                        i0, ip = f["names"].index(n), f["names"].index("__p")
                        if not all(oracle.cell_eq(r_[i0], r_[ip]) for r_ in f["rows"]):
                            diffs.append(dict(kind="transferred_reference_denotes_other_data", verb=tag, stmt=st["id"], op="export", backend=be, column=n))
            except Exception as e:  # noqa: BLE001
                if P.exc_class(e) not in ("SubqueryError",):
                    diffs.append(dict(kind="reroot_error", verb="transfer_col_references", stmt=st["id"], op="export", backend=be, exc=P.exc_class(e), msg=str(e)[:120]))
            # origin's references on the plain alias are rejected, its own work
            try:
                A >> pdt.mutate(__p=T[n0])
                diffs.append(dict(kind="origin_ref_accepted_after_alias", stmt=st["id"], op="export", backend=be, column=n0))
            except ColumnNotFoundError:
                pass
            except Exception as e:  # noqa: BLE001
                diffs.append(dict(kind="origin_ref_wrong_exception", stmt=st["id"], op="export", backend=be, exc=P.exc_class(e)))
            for tag, t2, ref in (("alias_own_ref", A, lambda: A[n0]), ("alias_keep_origin_ref", K, lambda: T[n0]),
                                 ("collect_origin_ref", Cc, lambda: T[n0])):
                if t2 is None:
                    continue
                try:
                    f = _frame(t2 >> pdt.mutate(__p=ref()))
                    i0, ip = f["names"].index(n0), f["names"].index("__p")
                    if not all(oracle.cell_eq(r[i0], r[ip]) for r in f["rows"]):
                        diffs.append(dict(kind="reference_maps_to_other_data", verb=tag, stmt=st["id"], op="export", backend=be, column=n0))
                except Exception as e:  # noqa: BLE001
                    if P.exc_class(e) not in ("SubqueryError",):
                        diffs.append(dict(kind="reference_rejected", verb=tag, stmt=st["id"], op="export", backend=be, exc=P.exc_class(e), msg=str(e)[:120]))
            # self-join of a derived table with its alias
            try:
                J = T >> pdt.join(A, T[n0] == A[n0], "inner")
                _frame(J)
            except Exception as e:  # noqa: BLE001
                if P.exc_class(e) not in ("SubqueryError",):
                    diffs.append(dict(kind="self_join_with_alias_fails", stmt=st["id"], op="export", backend=be, exc=P.exc_class(e), msg=str(e)[:120]))
            try:
                T >> pdt.join(K, T[n0] == K[n0], "inner")
                diffs.append(dict(kind="self_join_without_alias_accepted", stmt=st["id"], op="export", backend=be))
            except ValueError:
                pass
            except Exception as e:  # noqa: BLE001
                diffs.append(dict(kind="self_join_wrong_exception", stmt=st["id"], op="export", backend=be, exc=P.exc_class(e)))
    return diffs


def oracle_c09(program, po, so):
    """probe columns: an old reference, used on a later table, carries the data of the column it denoted"""
    import pydiverse.transform as pdt
    from pydiverse.transform._internal.errors import ColumnNotFoundError

    # a reference resolved to another column on one backend only shows up as a backend difference
    diffs = list(oracle.diff_c01(program, po, so))
    exports = [st for st in program["stmts"] if st["op"] == "export"]
    if not exports:
        return diffs
    st = exports[-1]
    for be, obs in (("polars", po), ("sqlite", so)):
        o = next(x for x in obs if x["id"] == st["id"])
        if o["outcome"] != "ok":
            continue
        with warnings.catch_warnings():
            warnings.simplefilter("ignore")
            env = _rebuild(program, be)
            F = env.tables.get(st["src"])
            if F is None or F._cache.partition_by:
                continue
            scope = set(F._cache.cols.keys())
            vis = dict((u, n) for n, u in F._cache.name_to_uuid.items())
            tested = 0
            for tid, T in env.tables.items():
                if T is F or tested >= 6:
                    continue
                for n, u in list(T._cache.name_to_uuid.items())[:4]:
                    ref = T[n]
                    if u in scope:
                        if u in vis:
                            tested += 1
                            try:
                                # `derived[ref].name` reports the current name
                                if F[ref].name != vis[u]:
                                    diffs.append(dict(kind="getitem_reports_wrong_name", stmt=st["id"], op="export", backend=be, got=F[ref].name, expected=vis[u]))
                                f = _frame(F >> pdt.mutate(__probe=ref))
                                i0, ip = f["names"].index(vis[u]), f["names"].index("__probe")
                                if not all(oracle.cell_eq(r[i0], r[ip]) for r in f["rows"]):
                                    diffs.append(dict(kind="reference_denotes_other_data", stmt=st["id"], op="export", backend=be, ref=[tid, n], now_named=vis[u]))
                            except Exception as e:  # noqa: BLE001
                                if P.exc_class(e) != "SubqueryError":
                                    diffs.append(dict(kind="in_scope_reference_rejected", stmt=st["id"], op="export", backend=be, ref=[tid, n], exc=P.exc_class(e), msg=str(e)[:120]))
                    else:
                        tested += 1
                        try:
                            F >> pdt.mutate(__probe=ref)
                            diffs.append(dict(kind="unreachable_reference_accepted", stmt=st["id"], op="export", backend=be, ref=[tid, n]))
                        except ColumnNotFoundError:
                            pass
                        except Exception as e:  # noqa: BLE001
                            diffs.append(dict(kind="unreachable_reference_wrong_exception", stmt=st["id"], op="export", backend=be, ref=[tid, n], exc=P.exc_class(e)))
                        # … and inside a join condition: ValueError (the column is not derivable any more), never resolved to something else
                        try:
                            src0 = next(iter(env.tables.values()))
                            G = src0 >> pdt.alias("probe_g")
                            gcol = G[next(iter(G._cache.name_to_uuid))]
                            F >> pdt.join(G, ref.is_null() == gcol.is_null(), how="inner")
                            diffs.append(dict(kind="unreachable_reference_accepted_in_join_on", stmt=st["id"], op="export", backend=be, ref=[tid, n]))
                        except (ValueError, ColumnNotFoundError):
                            pass
                        except Exception as e:  # noqa: BLE001
                            if P.exc_class(e) not in ("SubqueryError", "TypeError"):
                                diffs.append(dict(kind="unreachable_reference_wrong_exception_in_join_on", stmt=st["id"], op="export", backend=be, ref=[tid, n],
                                                  exc=P.exc_class(e), msg=str(e)[:120]))
            # C.name denotes whichever column carries the name now
            for n, u in list(F._cache.name_to_uuid.items())[:2]:
                try:
                    f = _frame(F >> pdt.mutate(__probe=pdt.C[n]))
                    i0, ip = f["names"].index(n), f["names"].index("__probe")
                    if not all(oracle.cell_eq(r[i0], r[ip]) for r in f["rows"]):
                        diffs.append(dict(kind="C_name_denotes_other_column", stmt=st["id"], op="export", backend=be, name=n))
                except Exception as e:  # noqa: BLE001
                    if P.exc_class(e) != "SubqueryError":
                        diffs.append(dict(kind="C_name_rejected", stmt=st["id"], op="export", backend=be, name=n, exc=P.exc_class(e)))
    return diffs


INTERNAL_OK = {"DataTypeError", "FunctionTypeError", "ColumnNotFoundError", "SubqueryError", "NotSupportedError", "ValueError", "TypeError"}


def oracle_c14_accept(program, po, so):
    """converse clause: a pipeline accepted by every verb call exports on Polars without an internal error;
    a verb call itself raises documented exception classes only"""
    diffs = []
    for st, o in zip(program["stmts"], po):
        if o["outcome"] != "error":
            continue
        if st["op"] == "export":
            diffs.append(dict(kind="internal_error", stmt=st["id"], op="export", exc=o["exc"], msg=o.get("msg"), backend="polars"))
        elif o["exc"] not in INTERNAL_OK:
            diffs.append(dict(kind="internal_error", stmt=st["id"], op=st["op"], exc=o["exc"], msg=o.get("msg"), backend="polars"))
    for st, o in zip(program["stmts"], so):
        if o["outcome"] == "error" and st["op"] != "export" and o["exc"] not in INTERNAL_OK:
            diffs.append(dict(kind="internal_error", stmt=st["id"], op=st["op"], exc=o["exc"], msg=o.get("msg"), backend="sqlite"))
    return diffs


oracle.oracle_c11 = oracle_c11
oracle.oracle_c16 = oracle_c16
oracle.oracle_c09 = oracle_c09
oracle.oracle_c14_accept = oracle_c14_accept


# ------------------------------------------------------------------ C12
_PL_OF = {"int64": "Int64", "int32": "Int32", "int16": "Int16", "int8": "Int8", "uint64": "UInt64", "uint32": "UInt32", "uint16": "UInt16",
          "uint8": "UInt8", "float64": "Float64", "float32": "Float32", "bool": "Boolean", "string": "String", "date": "Date", "null": "Null"}
_INTS = {"Int64", "Int32", "Int16", "Int8", "UInt64", "UInt32", "UInt16", "UInt8"}
_FLOATS = {"Float64", "Float32"}


def _static_ok(static: str, exported: str, exact: bool, all_null: bool) -> bool:
    """is the exported polars dtype what the static dtype predicts?  `exact`: Polars backend (concrete
    types must be equal); otherwise up to the numeric family.  Only all-null columns may be Null-typed."""
    st = static[len("const "):] if static.startswith("const ") else static
    if "tyvar" in st:
        return False               # an unbound type variable in a static type predicts nothing (D86)
    if st.startswith("list"):
        return exported.startswith("List")
    if exported == "Null":
        return all_null
    if st == "null":
        return all_null            # a null-typed expression exports a Null (or all-null) column
    if st == "int":
        return exported in _INTS
    if st == "float":
        return exported in _FLOATS or exported.startswith("Decimal")
    if st.startswith("string"):
        return exported == "String"
    if st.startswith("datetime"):
        return exported.startswith("Datetime")
    if st.startswith("decimal"):
        return exported.startswith("Decimal") or (not exact and exported in _FLOATS)
    if st.startswith("duration"):
        return exported.startswith("Duration")
    if st == "time":
        return exported.startswith("Time")
    want = _PL_OF.get(st)
    if want is None:
        return True                # types outside the generated domain (list, enum)
    if exact:
        return exported == want
    if want in _INTS:
        return exported in _INTS
    if want in _FLOATS:
        return exported in _FLOATS
    return exported == want


def oracle_c12(program, po, so):
    """static dtype of every visible column vs the exported schema (Polars exactly, SQL up to the numeric
    family); re-import of the exported frame and collect() reproduce the static types"""
    import pydiverse.transform as pdt

    from . import realtypes

    diffs = oracle.diff_c01(program, po, so)
    for be, obs in (("polars", po), ("sqlite", so)):
        by = {o["id"]: o for o in obs}
        for st in program["stmts"]:
            if st["op"] != "export":
                continue
            o = by.get(st["id"])
            src = by.get(st["src"])
            if o is None or o["outcome"] != "ok" or src is None or src.get("cache") is None or not o["frame"].get("dtypes"):
                continue
            cache = src["cache"]
            dt_of = {c[0]: c[2] for c in cache["cols"]}
            names = [n for n, _ in cache["visible"]]
            if names != o["frame"]["names"]:
                continue           # C11's business
            for j, (n, u) in enumerate(cache["visible"]):
                static = dt_of.get(u)
                if static is None:
                    continue
                exported = o["frame"]["dtypes"][j]
                all_null = all(r[j] is None for r in o["frame"]["rows"])
                if not _static_ok(static, exported, be == "polars", all_null):
                    diffs.append(dict(kind="dtype_mismatch", stmt=st["id"], op="export", backend=be, exc=None,
                                      detail=f"column {n!r}: static {static} but exported {exported}", dclass=f"{static.split('(')[0]}->{exported.split('(')[0]}"))
    # round trips on the real objects
    warnings.simplefilter("ignore")
    for be in ("polars", "sqlite"):
        obs = po if be == "polars" else so
        env = _rebuild(program, be)
        for st in program["stmts"]:
            if st["op"] != "export" or st["src"] not in env.tables:
                continue
            o = next((x for x in obs if x["id"] == st["id"]), None)
            if o is None or o["outcome"] != "ok":
                continue
            t = env.tables[st["src"]]
            try:
                df = t >> pdt.export(pdt.Polars())
                static = [realtypes.dt_text(pdt_types_without_const(c.dtype())) for c in t]
                t2 = pdt.Table(df)
                re_types = [realtypes.dt_text(c.dtype()) for c in t2]
                again = (t2 >> pdt.export(pdt.Polars()))
                if [str(x) for x in again.dtypes] != [str(x) for x in df.dtypes]:
                    diffs.append(dict(kind="reimport_schema_changes", stmt=st["id"], op="export", backend=be, exc=None,
                                      detail=f"{[str(x) for x in df.dtypes]} -> {[str(x) for x in again.dtypes]}"))
                for n, s0, s1, x in zip(df.columns, static, re_types, df.dtypes):
                    # the re-imported table's static type is the concrete type of the exported column
                    if not _static_ok(s1, str(x), True, df[n].null_count() == len(df)):
                        diffs.append(dict(kind="reimport_dtype", stmt=st["id"], op="export", backend=be, exc=None,
                                          detail=f"column {n!r}: exported {x}, re-imported static {s1} (was {s0})"))
                if be == "polars":
                    t3 = t >> pdt.collect()
                    c_types = [realtypes.dt_text(pdt_types_without_const(c.dtype())) for c in t3]
                    df3 = t3 >> pdt.export(pdt.Polars())
                    if [str(x) for x in df3.dtypes] != [str(x) for x in df.dtypes]:
                        diffs.append(dict(kind="collect_schema_changes", stmt=st["id"], op="export", backend=be, exc=None,
                                          detail=f"{[str(x) for x in df.dtypes]} -> {[str(x) for x in df3.dtypes]}"))
                    for n, s3, x in zip(df3.columns, c_types, df3.dtypes):
                        if not _static_ok(s3, str(x), True, df3[n].null_count() == len(df3)):
                            diffs.append(dict(kind="collect_dtype", stmt=st["id"], op="export", backend=be, exc=None,
                                              detail=f"column {n!r}: collected static {s3}, exported {x}"))
            except Exception as e:  # noqa: BLE001
                diffs.append(dict(kind="roundtrip_error", stmt=st["id"], op="export", backend=be, exc=type(e).__name__, detail=str(e)[:200]))
    return diffs


def pdt_types_without_const(t):
    from pydiverse.transform._internal.tree import types

    return types.without_const(t)


oracle.oracle_c12 = oracle_c12
