"""Greedy shrinking of failing programs: drop statements, bypass verbs, simplify expressions,
drop rows and columns — re-running the failing oracle after every step."""

from __future__ import annotations

import copy
import time


def _uses(st: dict) -> set[str]:
    out = set()
    for k in ("src", "right"):
        if st.get(k):
            out.add(st[k])

    def walk(j):
        if isinstance(j, dict):
            if "col" in j and isinstance(j["col"], list):
                out.add(j["col"][0])
            if "ref" in j:
                out.add(j["ref"])
            for v in j.values():
                walk(v)
        elif isinstance(j, list):
            for v in j:
                walk(v)

    walk({k: v for k, v in st.items() if k not in ("id", "op", "src", "right")})
    return out


def prune(program: dict, keep_ids: set[str]) -> dict:
    """keep only statements (transitively) needed by keep_ids"""
    need = set(keep_ids)
    by_id = {s["id"]: s for s in program["stmts"]}
    changed = True
    while changed:
        changed = False
        for i in list(need):
            if i in by_id:
                for u in _uses(by_id[i]):
                    if u not in need:
                        need.add(u)
                        changed = True
    p = dict(program)
    p["stmts"] = [s for s in program["stmts"] if s["id"] in need]
    used_tables = {s["table"] for s in p["stmts"] if s["op"] == "source"}
    p["tables"] = [t for t in program["tables"] if t["name"] in used_tables]
    return p


def _expr_paths(st: dict):
    """paths (lists of keys) to every expression node inside a statement"""
    paths = []

    def walk(j, path):
        if isinstance(j, dict):
            if any(k in j for k in ("fn", "case", "cast", "col", "c", "lit", "ref")):
                paths.append(path)
            for k, v in j.items():
                if k in ("col",):
                    continue
                walk(v, path + [k])
        elif isinstance(j, list):
            for i, v in enumerate(j):
                walk(v, path + [i])

    for k, v in st.items():
        if k in ("id", "op", "src", "right", "table", "target", "how", "suffix", "n", "offset", "name", "ordered", "distinct", "add", "keep_col_refs"):
            continue
        walk(v, [k])
    return paths


def _get(j, path):
    for k in path:
        j = j[k]
    return j


def _set(j, path, v):
    for k in path[:-1]:
        j = j[k]
    j[path[-1]] = v


def _subexprs(e):
    out = []
    if isinstance(e, dict):
        if "fn" in e:
            for a in e.get("args", []):
                out.append(a)
            for k in ("partition_by", "arrange", "filter"):
                for a in e.get(k) or []:
                    out.append(a)
        if "case" in e:
            for c, v in e["case"]:
                out += [c, v]
            if e.get("default") is not None:
                out.append(e["default"])
        if "cast" in e:
            out.append(e["cast"])
    return out


def shrink(program: dict, fails, *, budget_s=60.0, keep=None) -> dict:
    """`fails(program) -> bool`; returns a smaller program that still fails"""
    t_end = time.time() + budget_s
    best = copy.deepcopy(program)
    if keep:
        cand = prune(best, set(keep))
        if fails(cand):
            best = cand

    def attempt(c):
        nonlocal best
        if time.time() > t_end:
            return False
        try:
            if fails(c):
                best = c
                return True
        except Exception:
            return False
        return False

    progress = True
    while progress and time.time() < t_end:
        progress = False
        # 1. drop statements nobody needs except the kept ones / bypass verbs
        for st in list(best["stmts"]):
            if time.time() > t_end:
                break
            if st["op"] in ("source", "alias") or st["id"] in (keep or ()):
                continue        # removing an alias would turn valid joins/unions into same-origin ones
            if st not in best["stmts"]:
                continue
            c = copy.deepcopy(best)
            idx = [s["id"] for s in c["stmts"]].index(st["id"])
            victim = c["stmts"].pop(idx)
            if victim["op"] == "arrange":
                # the order that justified a sequence comparison is gone
                for s_ in c["stmts"]:
                    if s_["op"] == "export":
                        s_["ordered"] = False
            if victim.get("src"):
                # bypass: redirect users to the source of the removed verb
                def redirect(j):
                    if isinstance(j, dict):
                        for k, v in list(j.items()):
                            if k in ("src", "right") and v == victim["id"]:
                                j[k] = victim["src"]
                            elif k == "col" and isinstance(v, list) and v[0] == victim["id"]:
                                j[k] = [victim["src"], v[1]]
                            else:
                                redirect(v)
                    elif isinstance(j, list):
                        for v in j:
                            redirect(v)
                for s in c["stmts"]:
                    redirect(s)
            if keep:
                c = prune(c, set(keep))
            if any(s_.get("src") is not None and s_.get("src") == s_.get("right") for s_ in c["stmts"]):
                continue        # never create a self-join / self-union while shrinking
            if attempt(c):
                progress = True
        # 2. shrink argument lists of verbs
        for st in list(best["stmts"]):
            for key in ("cols", "preds", "by", "on", "map"):
                if isinstance(st.get(key), list) and len(st[key]) > 1:
                    for i in range(len(st[key])):
                        c = copy.deepcopy(best)
                        s2 = next(s for s in c["stmts"] if s["id"] == st["id"])
                        if i < len(s2[key]) and len(s2[key]) > 1:
                            s2[key].pop(i)
                            if s2["op"] == "arrange":
                                for s_ in c["stmts"]:
                                    if s_["op"] == "export":
                                        s_["ordered"] = False
                            if attempt(c):
                                progress = True
                                break
        # 3. simplify expressions: replace a node by one of its children or by a literal
        for st in list(best["stmts"]):
            if time.time() > t_end:
                break
            cur = next((s for s in best["stmts"] if s["id"] == st["id"]), None)
            if cur is None:
                continue
            for path in sorted(_expr_paths(cur), key=len):
                cur = next((s for s in best["stmts"] if s["id"] == st["id"]), None)
                if cur is None:
                    break
                try:
                    e = _get(cur, path)
                except (KeyError, IndexError, TypeError):
                    continue
                in_key_position = any(k in ("by", "on", "partition_by", "arrange") for k in path)
                is_lit = isinstance(e, dict) and "lit" in e
                for rep in _subexprs(e) + ([] if (in_key_position or is_lit) else [{"lit": 0}, {"lit": True}]):
                    if rep == e:
                        continue
                    c = copy.deepcopy(best)
                    s2 = next(s for s in c["stmts"] if s["id"] == st["id"])
                    try:
                        _set(s2, path, copy.deepcopy(rep))
                    except (KeyError, IndexError, TypeError):
                        continue
                    if attempt(c):
                        progress = True
                        break
        # 4. rows: halves, then single rows
        for ti in range(len(best["tables"])):
            n = len(best["tables"][ti]["cols"][0]["vals"]) if best["tables"][ti]["cols"] else 0
            chunk = max(1, n // 2)
            while chunk >= 1 and n > 0 and time.time() < t_end:
                i = 0
                removed = False
                while i < n:
                    c = copy.deepcopy(best)
                    for col in c["tables"][ti]["cols"]:
                        del col["vals"][i:i + chunk]
                    if attempt(c):
                        n = len(best["tables"][ti]["cols"][0]["vals"])
                        removed = True
                        progress = True
                    else:
                        i += chunk
                if chunk == 1 and not removed:
                    break
                chunk = max(1, chunk // 2) if chunk > 1 else (1 if removed else 0)
        # 5. unused columns
        for ti in range(len(best["tables"])):
            for cj in range(len(best["tables"][ti]["cols"]) - 1, -1, -1):
                if len(best["tables"][ti]["cols"]) <= 1:
                    break
                c = copy.deepcopy(best)
                c["tables"][ti]["cols"].pop(cj)
                if attempt(c):
                    progress = True
    return best
