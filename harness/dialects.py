"""Offline engines for SQL dialects whose drivers are not installed: real SQLAlchemy dialect
objects on stub DBAPI modules (enough for `build_query`, never executed)."""

from __future__ import annotations

import sys
import types


def _install_psycopg2():
    if "psycopg2" in sys.modules:
        return
    m = types.ModuleType("psycopg2")
    m.__version__ = "2.9.9 (dt dec pq3 ext lo64)"
    m.paramstyle = "pyformat"
    m.apilevel = "2.0"
    m.threadsafety = 2

    class Error(Exception):
        pass

    for n in ("Error", "InterfaceError", "DatabaseError", "OperationalError", "ProgrammingError", "IntegrityError", "DataError",
              "NotSupportedError", "InternalError"):
        setattr(m, n, Error)
    m.Binary = bytes
    ext = types.ModuleType("psycopg2.extensions")
    ext.ISOLATION_LEVEL_AUTOCOMMIT = 0
    ext.ISOLATION_LEVEL_READ_COMMITTED = 1
    ext.ISOLATION_LEVEL_REPEATABLE_READ = 2
    ext.ISOLATION_LEVEL_SERIALIZABLE = 3
    ext.ISOLATION_LEVEL_READ_UNCOMMITTED = 4
    ext.register_adapter = lambda *a, **k: None
    ext.AsIs = object
    extras = types.ModuleType("psycopg2.extras")
    extras.register_uuid = lambda *a, **k: None
    extras.register_default_json = lambda *a, **k: None
    extras.register_default_jsonb = lambda *a, **k: None
    extras.HstoreAdapter = object
    extras.execute_values = lambda *a, **k: None
    extras.execute_batch = lambda *a, **k: None
    m.extensions = ext
    m.extras = extras
    sys.modules["psycopg2"] = m
    sys.modules["psycopg2.extensions"] = ext
    sys.modules["psycopg2.extras"] = extras


def _install_pyodbc():
    if "pyodbc" in sys.modules:
        return
    m = types.ModuleType("pyodbc")
    m.version = "5.0.0"
    m.paramstyle = "qmark"
    m.apilevel = "2.0"
    m.threadsafety = 1

    class Error(Exception):
        pass

    for n in ("Error", "InterfaceError", "DatabaseError", "OperationalError", "ProgrammingError", "IntegrityError", "DataError",
              "NotSupportedError", "InternalError"):
        setattr(m, n, Error)

    class Cursor:
        def nextset(self):
            return False

    m.Cursor = Cursor
    m.Binary = bytes
    for i, n in enumerate(("SQL_WVARCHAR", "SQL_WCHAR", "SQL_WLONGVARCHAR", "SQL_VARCHAR", "SQL_CHAR", "SQL_DECIMAL", "SQL_NUMERIC",
                           "SQL_SS_TIME2", "SQL_SS_XML", "SQL_TYPE_TIMESTAMP", "SQL_LONGVARCHAR", "SQL_BINARY", "SQL_VARBINARY")):
        setattr(m, n, -100 - i)
    sys.modules["pyodbc"] = m


_ENGINES = {}


def engine(dialect: str):
    import sqlalchemy as sqa

    if dialect in _ENGINES:
        return _ENGINES[dialect]
    if dialect == "sqlite":
        e = sqa.create_engine("sqlite://")
    elif dialect == "postgres":
        _install_psycopg2()
        e = sqa.create_engine("postgresql+psycopg2://u:p@localhost/db")
    elif dialect == "mssql":
        _install_pyodbc()
        e = sqa.create_engine("mssql+pyodbc://u:p@h/db?driver=x")
    else:
        raise ValueError(dialect)
    _ENGINES[dialect] = e
    return e


SQA_TYPES = None


def sqa_table(name: str, cols: list[tuple[str, str]]):
    """an unbound SQLAlchemy table with the given column types (dtype text of prog.py)"""
    import sqlalchemy as sqa

    tm = {"int64": sqa.BigInteger, "float64": sqa.Double, "bool": sqa.Boolean, "string": sqa.String, "date": sqa.Date,
          "datetime": sqa.DateTime, "int32": sqa.Integer, "float32": sqa.Float}
    return sqa.Table(name, sqa.MetaData(), *[sqa.Column(n, tm[t]) for n, t in cols])
