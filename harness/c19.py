"""C19 — every accepted pipeline compiles on every SQL dialect; every accepted operator overload
has an implementation or NotSupportedError on every backend.

Deciding method: Lean theorem `impl_total` (Pdt/Props/C19.lean) over the implementation stores
regenerated from the source (translator), with the model of `get_impl` run against the real
class methods on every (backend, operator, signature); the renderer half (a) is *observed*:
`build_query` twice per program on SQLite, PostgreSQL and SQL Server engines (stub DBAPIs).
"""

from __future__ import annotations

import importlib
import itertools
import json
import random

from . import campaign, common, realtypes, triggers
from . import prog as P
from .c13 import arities, load_tables, text_to_json, with_const
from .common import Verdict

PROP = "C19"
DIALECTS = ["sqlite_nodata", "postgres", "mssql"]
ALLOWED_BUILD = {"NotSupportedError", "SubqueryError"}
DOCUMENTED_VERB = {"DataTypeError", "FunctionTypeError", "ColumnNotFoundError", "ValueError", "TypeError", "SubqueryError", "NotSupportedError"}

CLASS_MODULES = {
    "PolarsImpl": "polars", "SqlImpl": "sql", "TableImpl": "table_impl", "SqliteImpl": "sqlite", "PostgresImpl": "postgres",
    "MsSqlImpl": "mssql", "IbmDb2Impl": "ibm_db2", "DuckDbImpl": "duckdb", "DuckDbPolarsImpl": "duckdb_polars",
}


def backend_class(name):
    m = importlib.import_module(f"pydiverse.transform._internal.backend.{CLASS_MODULES[name]}")
    return getattr(m, name)


def real_get_impl(cls, op_attr, args) -> str:
    from pydiverse.transform._internal.errors import NotSupportedError
    from pydiverse.transform._internal.ops import ops

    try:
        cls.get_impl(getattr(ops, op_attr), tuple(realtypes.dt_from_json(a) for a in args))
        return "found"
    except NotSupportedError:
        return "NotSupportedError"
    except Exception as e:  # noqa: BLE001
        return "internal:" + type(e).__name__


def oracle_c19(program, po, so):
    """build_query on every dialect: deterministic text, one SELECT, allowed exceptions only"""
    diffs = []
    for d in DIALECTS:
        obs = P.run_program(program, d, observe_cache=False)
        for st, o in zip(program["stmts"], obs):
            if o["outcome"] == "error":
                if st["op"] == "export":
                    if o["exc"] not in ALLOWED_BUILD:
                        diffs.append(dict(kind="internal_error", stmt=st["id"], op="build_query", exc=o["exc"], dialect=d, msg=o.get("msg")))
                elif o["exc"] not in DOCUMENTED_VERB:
                    diffs.append(dict(kind="internal_error", stmt=st["id"], op=st["op"], exc=o["exc"], dialect=d, msg=o.get("msg")))
            elif st["op"] == "export" and "frame" in o:
                q = o["frame"]
                if not q["same"]:
                    diffs.append(dict(kind="nondeterministic_text", stmt=st["id"], op="build_query", dialect=d))
                txt = q["query"].strip()
                if not txt.upper().startswith(("SELECT", "WITH")) or ";" in txt.replace("';'", ""):
                    diffs.append(dict(kind="not_one_select", stmt=st["id"], op="build_query", dialect=d, text=txt[:200]))
    return diffs


from . import oracle as _O  # noqa: E402

_O.oracle_c19 = oracle_c19


def run(tier: str, seed: int) -> int:
    v = Verdict(PROP, tier, seed)
    rng = random.Random(seed)
    po = common.proof_obligations(PROP)
    findings = common.findings_for(PROP, also=("C01", "C08"))
    tables = load_tables()
    # ---------------- (b) implementation lookup: model vs real, all backends x operators
    base = [text_to_json(t) for t in tables["types"]["universe"]]
    small = [b for b in base if b in ("int64", "int", "float64", "string", "bool", "null", "datetime", "date", "int8", "float32")]
    U = small + [with_const(b) for b in small]
    reqs, real = [], []
    classes = {k: backend_class(ch[0]) for k, ch in tables["impl"]["chains"].items()}
    typed_ops = {k: {op for cls in ch for op, r in tables["impl"]["stores"][cls].items() if r["typed"]} for k, ch in tables["impl"]["chains"].items()}
    for bk, cls in classes.items():
        for op in tables["ops"]:
            tuples = [[]]
            if op["attr"] in typed_ops[bk]:
                tuples = []
                for k in arities(op):
                    if k <= 2:
                        tuples += [list(t) for t in itertools.product(U, repeat=k)]
            for args in tuples:
                reqs.append(dict(cmd="get_impl", backend=bk, op=op["attr"], args=args))
                real.append(real_get_impl(cls, op["attr"], args))
    corr, internal = [], []
    hist = {}
    for r, x in zip(reqs, real):
        hist[x.split(":")[0]] = hist.get(x.split(":")[0], 0) + 1
        if x.startswith("internal"):
            internal.append(dict(kind="get_impl_internal_error", backend=r["backend"], op=r["op"], args=r["args"], real=x))
    if po["build"]["ok"]:
        for r, x, m in zip(reqs, real, common.run_driver(reqs)):
            mm = "found" if m.startswith("found") else m
            if mm != (x if not x.startswith("internal") else "internal"):
                corr.append(dict(kind="get_impl", request=r, real=x, model=m))
    unsupported = sorted({(r["backend"], r["op"]) for r, x in zip(reqs, real) if x == "NotSupportedError"})

    # ---------------- (a) build_query on every dialect
    n = 120 if tier == "quick" else 3000
    # the six general profiles, and the scenario programs whose shapes make the SQL compiler take its rarer paths (re-selected
    # union operands, forced subqueries with hidden / grouping columns, renamed join keys, constant keys)
    c19_profiles = list(campaign.PROFILES[:6]) + ["scen_union_agg_right", "scen_subq_group", "scen_subq_hidden", "scen_union_distinct",
                                                  "scen_join_suffix", "scen_const_key", "scen_union_const", "scen_selfjoin_agg"]
    sp = [(seed * 1_000_003 + i, c19_profiles[i % len(c19_profiles)]) for i in range(n)]
    results = campaign.run_programs(sp, "oracle_c19")
    st = campaign.stats_of(results)
    known_hits, new = {}, []
    for r in results:
        if "crash" in r:
            new.append((None, dict(kind="harness_crash", stmt="", detail=r["crash"][-800:])))
            continue
        k, nw = campaign.classify(r["program"], r["diffs"], r["trig"], findings, PROP)
        for fid, ds in k.items():
            known_hits.setdefault(fid, []).extend(ds)
        new += [(r, d) for d in nw]
    for f in findings:
        if f["id"] in known_hits:
            v.known_finding(f"{f['id']}: {f['summary']} ({len(known_hits[f['id']])} instances)")
    for d in internal[:5]:
        v.violation(f"get_impl-{d['backend']}-{d['op']}", d)
    groups = {}
    for r, d in new:
        groups.setdefault((d["kind"], d.get("op"), d.get("exc"), d.get("dialect")), []).append((r, d))
    for key, items in list(groups.items())[:6]:
        r, d = items[0]
        v.violation("-".join(str(k) for k in key), dict(kind=key[0], op=key[1], exc=key[2], dialect=key[3], n_cases=len(items), first_diff=d,
                                                         program=(r["program"] if r else None), seeds=[x[0]["seed"] for x in items[:8] if x[0]]))
    # ---------------- (c) directed grid: literals x dtypes, const parameters, empty context kwargs, unordered slices
    import re as _re

    from . import c19grid

    grid = c19grid.run_grid()
    grid_hist = {}
    grid_known = {}
    grid_new = {}
    for g in grid:
        grid_hist[g["outcome"]] = grid_hist.get(g["outcome"], 0) + 1
        if g["outcome"] not in ("internal", "nondeterministic", "not_one_select"):
            continue
        owner = None
        for f in findings:
            for rule in f.get("grid", []):
                if _re.search(rule["case"], g["case"]) and g["dialect"] in rule["dialects"] and g.get("exc") == rule.get("exc") and g["outcome"] == "internal" \
                        and g.get("stage") == "build_query":
                    owner = f
        if owner is not None:
            grid_known.setdefault(owner["id"], []).append(g)
        else:
            grid_new.setdefault((g["case"].split(".")[0] + "." + g["case"].split(".")[1], g["outcome"], g.get("exc")), []).append(g)
    for f in findings:
        if f["id"] in grid_known and f["id"] not in known_hits:
            v.known_finding(f"{f['id']}: {f['summary']} ({len(grid_known[f['id']])} grid cases)")
    for key, items in list(grid_new.items())[:6]:
        v.violation("grid-" + "-".join(str(k) for k in key), dict(kind="grid_" + key[1], case=items[0]["case"], exc=key[2], n_cases=len(items),
                                                                    cases=items[:12], how="python -m harness.c19grid -v | grep <case>"))
    new = new + [(None, g) for items in grid_new.values() for g in items]

    broken = []
    if not po["ok"]:
        broken.append(dict(kind="proof", errors=po["build"].get("errors"), bad_axioms=po.get("bad_axioms"), forbidden=po.get("forbidden_hits"),
                           missing=po["audit"].get("missing"), tail=po["build"].get("tail", "")[-2000:]))
    if corr:
        broken.append(dict(kind="correspondence", observation="get_impl", n=len(corr), first=corr[:10]))
    if broken and not (new or internal):
        v.violation("unproved", dict(what="a proof obligation or the get_impl correspondence of C19 no longer checks; no failing input found",
                                     broken=broken, theorems=po.get("theorems")), no_input=True)
    ok = [r for r in results if "crash" not in r]
    v.coverage = dict(
        obligations=po["obligations"], discharged=po["discharged"],
        checker_cmd="cd lean && lake build Pdt.Props.C19 && lake env lean ../out/audit/Pdt_Props_C19.lean",
        trusted_base=common.TRUSTED_BASE, theorems=po["theorems"], axioms=po["audit"].get("axioms"), proof_ok=po["ok"],
        programs=len(ok) * len(DIALECTS), disagreements_checked=len(corr), evaluations=len(reqs) + len(ok) * len(DIALECTS) + len(grid),
        distinct_nontrivial=st["distinct_nontrivial"],
        rule="(b) every backend class chain x every operator (x every argument tuple over a 20-type universe when a typed implementation "
             "exists) against the real get_impl; (a) generated programs built twice on SQLite, PostgreSQL and SQL Server dialect objects; "
             "non-trivial = distinct program with >= 3 statements and a non-empty Polars export",
        samples=[dict(request=reqs[i], real=real[i]) for i in rng.sample(range(len(reqs)), 4)],
        get_impl_histogram=hist, unsupported_pairs=[list(u) for u in unsupported][:80],
        dialects=DIALECTS, dialects_skipped=tables["impl"]["skipped"], verb_histogram=st["verbs"],
        known_findings_hit={**{k: len(c) for k, c in known_hits.items()}, **{k + "(grid)": len(c) for k, c in grid_known.items()}},
        grid_cases=len(grid), grid_outcomes=grid_hist,
        grid_rule="every literal class x explicit dtype (typed nulls included) in mutate / comparison / coalesce+aggregate; every operator signature "
                  "with a const parameter, with a plain and a computed constant; every window / aggregate operator with empty or duplicated "
                  "arrange / partition_by / filter lists; unordered slices alone and below a subquery; x three dialects",
    )
    v.assumptions = ["that SQLAlchemy renders the compiled construct is observed (three dialects), not proved; execution is only possible on SQLite",
                     "DuckDB and DB2 dialect classes are only covered when importable (see dialects_skipped)"]
    return v.finish("proof")
